"""Engine for kyupy.logic_sim.LogicSim (real code): assignment from explicit mv values, row permutation, callbacks."""
import numpy as np

from . import core, refmodels


def lmods():
    import kyupy.logic_sim as ls
    import kyupy.logic as lg
    for a in ('LogicSim',):
        if not hasattr(ls, a): raise core.HarnessError('kyupy.logic_sim.LogicSim disappeared (coupling, DESIGN 8)')
    return ls, lg


ALPHABET = {2: [0, 3], 4: [0, 1, 2, 3], 8: [0, 1, 2, 3, 4, 5, 6, 7]}


def mv_stimulus(s_len, sims, m, vals, lane_map=None, lanes=None):
    """(s_len, sims) array of mv codes from the explicit value list."""
    al = ALPHABET[m]
    a = np.zeros((s_len, sims), dtype=np.uint8)
    a[...] = 2 if m > 2 else 0
    for si in range(s_len):
        for lane in range(lanes if lanes is not None else sims):
            tgt = lane if lane_map is None else lane_map[lane]
            if tgt is None or tgt >= sims: continue
            a[si, tgt] = al[vals[(si * 5 + lane * 3) % len(vals)] % len(al)]
    return a


def make(circuit, sims, m, c_reuse, strip_forks):
    ls, lg = lmods()
    return ls.LogicSim(circuit, sims=sims, m=m, c_reuse=c_reuse, strip_forks=strip_forks)


def assign(sim, mva):
    ls, lg = lmods()
    bp = lg.mv_to_bp(mva)          # (s_len, 3, nbytes)
    sim.s[0] = bp
    return bp


def run(sim, cb=None):
    sim.s_to_c()
    if cb is None: sim.c_prop()
    else: sim.c_prop(inject_cb=cb)
    sim.c_to_s()
    return sim.s[1].copy(), sim.c.copy()


def result_mv(sim, s1=None):
    ls, lg = lmods()
    return lg.bp_to_mv(sim.s[1] if s1 is None else s1)[:, :sim.sims]


def permute_rows(sim, rp):
    import random
    ops = np.array(sim.ops).copy()
    for lv, (a, b) in enumerate(zip(sim.level_starts, sim.level_stops)):
        idx = list(range(int(a), int(b)))
        if rp.get('kind') == 'reversed': idx.reverse()
        else: random.Random((int(rp.get('seed', 0)) << 12) ^ lv).shuffle(idx)
        ops[int(a):int(b)] = ops[idx]
    sim.ops = ops


def scratch_mask(sim):
    keep = np.ones(sim.c_len, dtype=bool)
    for x in (sim.tmp_idx, sim.tmp2_idx):
        a = int(sim.c_locs[x]); keep[a:a + int(sim.c_caps[x])] = False
    return keep


def check_rowperm(built, lc, knobs, res):
    """C07 for the bit-parallel simulator: permuting rows of ops inside every level changes nothing."""
    c = built.circuit
    m, sims = int(lc['m']), int(lc['sims'])
    s_len = len(refmodels.s_nodes_of(c))
    mva = mv_stimulus(s_len, sims, m, lc['vals'])
    a = make(c, sims, m, knobs['c_reuse'], knobs['strip_forks'])
    assign(a, mva)
    s1, c1 = run(a)
    b = make(c, sims, m, knobs['c_reuse'], knobs['strip_forks'])
    permute_rows(b, lc['rowperm'])
    assign(b, mva)
    s2, c2 = run(b)
    res.count('logic_propagations', 2)
    res.log.add_array('ls', s1)
    if not np.array_equal(s1, s2):
        d = np.argwhere(s1 != s2)[0]
        res.violate('logic-schedule-dependent-result', f'LogicSim m={m}: s[1]{d.tolist()} differs after permuting rows inside levels')
        return
    keep = scratch_mask(a)
    if not np.array_equal(c1[keep], c2[keep]):
        res.violate('logic-schedule-dependent-memory', f'LogicSim m={m}: signal memory differs after permuting rows inside levels')
