#!/usr/bin/env python3
"""Regenerates /verif/MANIFEST.json (single source of truth for the interface)."""
import json, os
HERE = os.path.dirname(os.path.dirname(os.path.abspath(__file__)))
NA = {
"C01":"Pure function of (netlist, 0/1 stimulus, batch size, cycle count); k cycles is k-fold iteration of a deterministic function on one thread - no order, fault, I/O or shared state to simulate (its callback path and cycle() are exercised under injection by C16).",
"C02":"Pure function of (netlist, multi-valued stimulus); X-soundness is a for-all-inputs statement with no schedule, history or fault dimension.",
"C04":"Static-timing window, shift/scale invariance and timestamp monotonicity are metamorphic relations of a deterministic function of (circuit, delays, stimulus); the 'time' is data, not a clock the code reads.",
"C05":"Relation between two deterministic functions (8-valued logic simulation vs timing simulation) of the same input; nothing for a scheduler or fault injector to vary.",
"C11":"Text -> circuit -> truth table is a pure function of the text; file access in readtext is not part of the statement.",
"C12":"Finite pure functions (8^k operand combinations); exhaustive enumeration is the right tool and is not this technique.",
"C14":"SDF text -> delay array is a pure function of (text, circuit); no run-time behaviour involved.",
"C15":"Encoding conversions are pure functions of arrays/strings.",
"C17":"Traversal orders and name look-ups are pure functions of the graph.",
"C18":"STIL text -> pattern arrays is a pure function (the embedded logic simulation is deterministic and single-threaded).",
"C19":"Static library tables and per-cell truth tables: finite enumeration, no behaviour over time.",
"C20":"DEF text -> extracted data is a pure function of the text; the module is not even imported by the rest of the package.",
}
CHECKS = {
 'C03': dict(technique='deterministic simulation: capacity-exhaustion fault injection (overflow degraded mode) with paired fault-free runs against a Boolean reference evaluator',
   text='Seeded exploration of fault plans: a random subset of waveform memories is shrunk to the minimum capacity so that the overflow path (transitions discarded) actually runs, under option knobs, reuse batches and poisoned dead storage; every input waveform is compared with the assigned initial/final value right after s_to_c() (also when the slot held a multi-transition waveform before, and when inputs are rewritten between two propagations), every produced waveform (snapshot when its op finishes) and every captured value is compared with an independent gate-by-gate Boolean evaluator for initial value and final-value parity. The unfaulted clauses of the statement are pure functions and are only sampled as the separately counted fault-free tier.',
   ref='5.4', note='RefEval written from gate names; dyadic delays <= 64; pure-Python fallback; sampling within <=40 gates, <=4 lanes.'),
 'C06': dict(technique='deterministic simulation: configuration swarm over knobs, code paths, seeded GPU thread orders, lanes and storage reuse with poison faults',
   text='Each seeded case runs as several configuration pairs that must agree bit-for-bit on port-level results: memory reuse (with dead storage poisoned at level boundaries and several batches on one object), fork stripping, CPU vs mock-GPU path under seeded thread orders and the repository launcher (assign/eval/capture/state-transfer kernels, abuf), both paths restricted to k lanes in the later batches of one object, lane count and lane position, propagation restricted to k lanes (with a lane-isolation monitor), delay-dataset selection modes (global, per simulation, random with per-simulation seeds that travel with the stimulus), a pickle round trip of the simulator object between batches, repeated propagation without re-assignment, capture times passed as float32 / float64 / Python numbers (also float64 values that round to a transition time); LogicSim likewise (options, lane count and position up to 300 lanes, a lane simulated alone or with perturbed neighbours). One genuine defect (F4) is recorded as a known finding.',
   ref='5.3', note='Exact 0/1 stimuli; sd=0; pure-Python fallback; the purely configurational pairs (dataset selection, lane position on LogicSim) contain no schedule or fault and are counted as fault-free differential.'),
 'C16': dict(technique='deterministic simulation: fault injection through the code\'s own inject_cb seam, event-history checks and refinement against a cut-circuit reference',
   text='The harness callback is monitor and fault injector: seeded fault plans overwrite signals in chosen lanes and cycles (c_prop and cycle(k)); the recorded event history is checked for exactly-once, dependency order, identity and view semantics, and per cycle and lane group the results and every value any callback saw must equal the callback-free simulation of the cut circuit in which each injected line is a fresh primary input. Untouched callbacks must leave s[1] and c bit-identical in all three logics, whatever the callable is (function, partial, method, falsy object) and whatever it returns; lane counts range from 1 to 40 000 (more than 4096 bytes per signal); a callback-free propagation on the same object afterwards - with or without a new assignment - must give the fault-free results again.',
   ref='5.6', note='Oracle is the same simulator class without callback on a rebuilt cut circuit (no second multi-valued algebra); lanes are grouped by injection set; pure-Python fallback.'),
 'C09': dict(technique='deterministic simulation: stateful exploration of edit histories against a reference graph model, with restore (pickle/copy) faults in mid-history',
   text='Seeded histories of 1-150 public edit operations (nodes, lines with implicit/explicit pins, removals, get_or_add_fork, port list edits, eliminate_1to1_forks, substitute with generated implementations, copy, pickle round trip after which the history continues on the restored object). Removals are repeated on stale handles, cells and forks may share a name, node kinds and names are exotic, a fork may have hundreds of branches, a graph hundreds of unconnected nodes and few lines. After every step all clauses of the statement are evaluated on the real object (indices, name lookups, exact pin back-references by scanning all pin lists, gap-free fork outputs, statistics) and the graph must be isomorphic to the dict-based reference model.',
   ref='5.7', note='Well-formed use only (acyclic, one driver per fork, explicit pins on free positions); substitute re-synchronises the model after the invariants passed; trailing None pin slots are not compared.'),
 'C10': dict(technique='deterministic simulation: seeded transformation histories with restore (pickle/copy) steps, checked after every step against a hierarchical reference evaluator',
   text='No schedule exists here; what is explored is the history: a seeded netlist with instances of every cell of every built-in library (random pin subsets connected), optionally hundreds of unconnected spare cells, instances that use a later implementation output and leave earlier ones open, goes through 1-8 transformation steps (copy, pickle round trip, eliminate_1to1_forks, substitute with generated and nested implementations, resolve_tlib_cells); after every step the list of ports/state elements and the exhaustive 2-valued table at their data pins (independent evaluator: hierarchical through implementation circuits before resolving, flat afterwards) must be unchanged; no library cell may remain after resolving, the libraries must still offer every cell name of the pinned tree, and the shared implementation circuits must stay unmodified; after resolving and at the end of a history the same table is also taken through the LogicSim of the library itself on the transformed circuit (the function as a user observes it). Two genuine defects (latch cells without latch in their name; state-element order after node removal) are recorded known findings.',
   ref='5.8', note='Unconnected instance inputs only where the function is unambiguous; one library per case; RefEval written from gate names; exhaustive up to 10 variables, else 1024 fixed rows.'),
 'C13': dict(technique='deterministic simulation: capacity faults paired with unlimited runs, accumulation under seeded GPU thread orders and real-thread interleavings, capture read-out of recorded state',
   text='Overflow indicator: capacity-faulted run vs paired capacity-64 run, every output whose indicator is clear must carry exactly the unlimited waveform. Accumulation: abuf must equal the weighted rise/fall count of the waveform snapshots taken when each op finishes, cumulatively over reuse batches, on the CPU path, under seeded mock-GPU thread orders, under fine-grained interleaving (where a non-atomic update loses counts) and for the first k lanes. Capture summary: s[3..8], s[10] against what the stored output waveform encodes for capture times selected on/around actual transitions, on every lane - also after a propagation restricted to the first k lanes, where the lanes beyond k keep the waveforms of an earlier full propagation.',
   ref='5.5', note='sd=0; "unlimited" = 64 entries (cases where that overflows are skipped and counted); pure-Python fallback.'),
 'C07': dict(technique='deterministic simulation: seeded GPU-thread scheduler (order + interleave) with race/ownership monitors',
   text='Seeded exploration of schedules: every generated circuit/option combination is executed under permuted intra-level op orders (CPU), seeded thread orders of the mock-GPU grid, the repository launcher and real-thread interleavings; a run-time race monitor (M1), shadow-ownership monitor (M2) and lane monitor (M3) judge every access, and signal memory and results must be bit-identical to the canonical order. Sampling, not proof: evidence within the stated bounds (<=40 gates normally, 50-80 in the rare deep / wide shapes, the shipped b01 netlist; <=6 lanes, 33 in the lane rows).',
   ref='5.1', note='Pure-Python fallback (MockNumba/MockCuda) is what executes; CUDA runtime replaced by SimCuda; a kernel launch is the only barrier.'),
 'C08': dict(technique='deterministic simulation: alloc/free history exploration against a reference heap + token/ownership execution of the real memory map with poison faults',
   text='Allocator: seeded alloc/free histories checked after every step against an interval-set reference model. Map: the real SimOps schedule and map are executed with tokens (order-independent conflict analysis per level) and with real waveforms under shadow ownership, with dead storage poisoned at every level boundary and several reuse batches; port results must be unaffected. One shipped netlist (b15, ~20 000 ops) runs through the token executor in the quick tier, more in the thorough tier.',
   ref='5.2', note='No allocation policy assumed; liveness model for poisoning is the weakest possible; pure-Python fallback.'),
}
def main():
    checks = []
    for pid, c in sorted(CHECKS.items()):
        checks.append({
            'property_id': pid,
            'quick_cmd': f'./check {pid} --tier quick',
            'thorough_cmd': f'./check {pid} --tier thorough',
            'evidence_file': f'evidence/{pid}.json',
            'replay_cmd_template': './check --replay {path}',
            'engine': 'dsim',
            'level_claimed': {'category': 'exploration', 'text': c['text'], 'design_ref': 'DESIGN.md ' + c['ref']},
            'level_note': c['note'],
            'technique': c['technique'],
        })
    na = dict(NA)
    m = {
     'version': 1,
     'setup_cmd': "/venv/bin/python -c \"import sys; sys.path.insert(0,'/repo/src'); import numpy, kyupy\"",
     'hooks': {'guard': 'KYUPY_VERIF',
               'enable': 'no source hook exists or is needed: every seam is reachable from outside (module attributes kyupy.wave_sim.cuda / kernel launchers .func, constructor parameters, the inject_cb argument, pickle); ./check exports KYUPY_VERIF=1 for uniformity only, the library never reads it',
               'baseline_off_cmd': 'cd /repo && env -u KYUPY_VERIF /venv/bin/python -m pytest -ra -q -p no:cacheprovider --timeout=900 --continue-on-collection-errors',
               'source_commits': [], 'add_only': True},
     'engines': [{'name': 'dsim', 'path': 'dsim/', 'serves_properties': sorted(CHECKS),
                  'kind_free_text': 'seeded deterministic simulator: seed->JSON case generator, simulated GPU thread scheduler (order and interleave mode), device-memory proxies with race/ownership/lane monitors, fault injectors (capacity exhaustion, poison of dead storage, reuse batches, lane restriction, restore), reference models, ddmin minimiser, replay'}],
     'checks': checks,
     'not_applicable': [{'property_id': k, 'reason': v} for k, v in sorted(na.items())],
     'notes': 'Technique family: deterministic simulation with fault injection. See DESIGN.md; genuine defects found are in known_findings.json (fixed: entries are fix: commits in /repo).',
    }
    json.dump(m, open(os.path.join(HERE, 'MANIFEST.json'), 'w'), indent=1)
if __name__ == '__main__': main()
