"""C09 - circuit graph stays consistent under every edit history.

Stateful exploration of the public editing API against RefGraph: Node (fresh / duplicate name), Line with implicit pins and
with explicit free pins, Line.remove, Node.remove of disconnected nodes, get_or_add_fork, io_nodes append/assign,
eliminate_1to1_forks, substitute with generated implementation circuits, copy, and F-restore (pickle -> drop -> unpickle;
the history continues on the restored object).  After every step the clauses of the statement are checked on the real object
and the real graph must be isomorphic (names, kinds, pin-exact connectivity, port order) to the reference model.
"""
import contextlib
import io

from .. import core, graphsim
from ..graphsim import RefGraph

PROP = 'C09'
TIERS = {
    'quick': {'runs': 60000, 'chunk': 100, 'wall_cap': 80, 'min_budget': 30},
    'thorough': {'runs': 1500000, 'chunk': 500, 'wall_cap': 850, 'min_budget': 60},
}
RULE = ('case = history of 1-60 (thorough: up to 150) public edit operations with integer selectors resolved against the reference model; well-formed use: no self-loops, no cycles, '
        'at most one driver per fork, explicit pins only on free positions (forks: only the next output position), nodes removed after their lines, one port entry per node; calls that must be rejected (duplicate name, implementation with too few ports) are issued too and must leave the graph unchanged; objects that copies were taken from are kept and must stay unchanged; 2 % of the histories contain a fork with 130-300 branches; '
        'non-trivial iff the history contains a removal that moved an element into a hole (swap-with-last) followed by at least one later edit, or a restore/copy in mid-history followed by further edits; '
        'distinct = distinct case digests')
REAL_VS_STUB = {'real': ['kyupy.circuit: GrowingList, IndexList, Node, Line, Circuit (eliminate_1to1_forks, substitute, remove_dangling_nodes, copy, __getstate__/__setstate__, stats)', 'pickle of Circuit', 'kyupy.bench.parse (provider of implementation circuits, trusted)'],
                'stub': ['none (RefGraph is the reference model, not a replacement)']}
ASSUMPTIONS = ['trailing unconnected pin slots (None at the end of a pin list) are not part of the compared state: a restore legitimately drops them',
               'substitute is checked by the invariants after the step and the model is re-synchronised from the real object (its rewiring is too rich to predict; its function preservation is C10)']
EXPECTED_PROBES = ['many_unconnected_nodes', 'mismatching_substitute_rejected', 'original_checked_after_edits_on_copy', 'wide_fork', 'double_remove', 'shared_name', 'hole_filled_by_last', 'restore_mid_history', 'copy_mid_history', 'duplicate_name_rejected', 'explicit_pin', 'fork_squeeze', 'eliminate_spliced', 'eliminate_kept_undriven', 'substitute_done', 'substitute_ignored_input']

KINDS = ['and', 'or', 'nand', 'not', 'buf', 'xor', 'dff', 'latch', 'input', 'output', 'AOI21', 'mux21', 'DFFX1', '__const0__', 'INPUT', 'OUTPUT', 'SDFFLATCHX1', 'Put', 'DLATCH']
OPS = ['node', 'node', 'node', 'fork', 'line', 'line', 'line', 'line', 'linex', 'linex', 'rmline', 'rmline', 'rmnode', 'gof', 'io', 'ioset', 'elim', 'subst', 'copy', 'restore', 'dup']


def gen(rng, tier, i):
    n = rng.choice([3, 8, 15, 30, 60] if tier == 'quick' else [8, 30, 60, 100, 150])
    ops = []
    w_struct = rng.choice([0.02, 0.05, 0.15])
    for _ in range(n):
        r = rng.random()
        if r < w_struct: op = rng.choice(['elim', 'subst', 'copy', 'restore'])
        else: op = rng.choice(OPS)
        ops.append([op] + [rng.randrange(1 << 16) for _ in range(5)])
    if rng.random() < 0.02:      # a clock- or reset-like net: one fork with hundreds of branches (pin numbers beyond 127 and 255)
        pos = rng.randrange(len(ops) + 1)
        ops[pos:pos] = [['wide', rng.choice([130, 257, 300]), 0, 0, 0, 0]] + ([[rng.choice(['restore', 'copy'])] + [rng.randrange(1 << 16) for _ in range(5)]] if rng.random() < 0.7 else [])
    if rng.random() < 0.02:      # spare / filler cells: many more nodes than lines (node indices beyond 255 in a graph with few lines)
        pos = rng.randrange(min(len(ops), 4) + 1)
        ops[pos:pos] = [['many', rng.choice([200, 260, 300]), rng.randrange(1 << 16), 0, 0, 0]]
        if rng.random() < 0.7: ops.append([rng.choice(['restore', 'copy'])] + [rng.randrange(1 << 16) for _ in range(5)])
    return {'ops': ops}


def impl_text(sel, n_in, n_out, uid):
    """Small bench-format implementation circuit with n_in inputs / n_out outputs; shapes by selector: unused inputs, inputs with
    several readers, outputs read internally, multi-output."""
    import random
    r = random.Random(sel)
    ins = [f'a{uid}i{k}' for k in range(n_in)]     # unique port names: substituting the same instance name twice must not clash
    gates = []
    sigs = list(ins)
    unused = set(r.sample(ins, k=min(len(ins), r.choice([0, 0, 1, 2])))) if ins else set()
    usable = [s for s in sigs if s not in unused] or []
    n_g = max(n_out, r.randint(1, 4)) if n_out > 0 else 0     # no output: empty implementation (as HEADX, ANTENNA, fill cells)
    for j in range(n_g):
        kind = r.choice(['and', 'or', 'nand', 'xor', 'not', 'buf', 'nor'])
        pool = usable + [g[0] for g in gates]
        if not pool:
            kind = '__const1__'; srcs = []
        else:
            k = 1 if kind in ('not', 'buf') else r.randint(2, 3)
            srcs = [r.choice(pool) for _ in range(k)]
        gates.append((f'z{uid}x{j}', kind, srcs))
    outs = [g[0] for g in gates[-n_out:]] if n_out > 0 else []
    if r.random() < 0.5: r.shuffle(outs)      # port order independent of the evaluation order: an earlier port may read a later one
    text = f"input({','.join(ins)}) output({','.join(outs)}) " + ' '.join(f"{g}={k}({','.join(s)})" for g, k, s in gates)
    return text, len(unused)


class Exec:
    def __init__(self, res):
        from kyupy.circuit import Circuit
        self.res = res
        self.c = Circuit('h')
        self.name_set = False
        self.dup_io = False
        self.m = RefGraph()
        self.names = 0
        self.dirty_after_hole = False
        self.hole = False
        self.restored = False
        self.resync = False
        self.left_behind = []

    def node_obj(self, key):
        return (self.c.forks if key[1] else self.c.cells)[key[0]]

    def line_obj(self, lid):
        dkey, dpin, rkey, rpin = self.m.lines[lid]
        return self.node_obj(dkey).outs[dpin]

    def step(self, k, op):
        from kyupy.circuit import Node, Line
        from kyupy import bench
        res, m, c = self.res, self.m, self.c
        kind, a, b, cc, d, e = op
        if not self.name_set:
            self.name_set = True
            c.name = [None, 'h', 5, 'top module', ''][e % 5]      # the circuit's name is free-form (parsers set a file name, None is the default)
        keys = sorted(m.nodes, key=lambda kk: m.nodes[kk]['seq'])
        did = None
        if kind in ('node', 'fork'):
            self.names += 1
            nk = '__fork__' if kind == 'fork' else KINDS[a % len(KINDS)]
            name = f'n{self.names}' + ['', '', '', '[3]', ' x', '\u00fc', '.q', '/z'][d % 8]
            if d % 16 == 9: name = 100000 + self.names            # names are dictionary keys: any hashable will do (programmatic construction)
            elif d % 16 == 10: name = ('n', self.names)
            if b % 5 == 0:      # a fork and a cell may share a name (separate name spaces; both parsers produce this)
                other = [kk for kk in keys if kk[1] != (nk == '__fork__') and (kk[0], nk == '__fork__') not in m.nodes and '~' not in str(kk[0])]
                if other:
                    name = other[cc % len(other)][0]
                    res.probe('shared_name')
            Node(c, name, nk)
            m.add_node(name, nk)
            did = f'Node({name},{nk})'
        elif kind == 'dup':
            if not keys: return None
            key = keys[a % len(keys)]
            nk = '__fork__' if key[1] else KINDS[b % len(KINDS)]
            before = graphsim.real_signature(c)
            try:
                Node(c, key[0], nk)
                res.violate('graph-duplicate-name-accepted', f'step {k}: a second {"fork" if key[1] else "cell"} named "{key[0]}" was accepted')
                return 'dup'
            except AssertionError:
                res.probe('duplicate_name_rejected')
            try:
                unchanged = graphsim.real_signature(c) == before
            except (AttributeError, TypeError, KeyError, IndexError):
                unchanged = False      # (a half-constructed node left in a container cannot even be described)
            if not unchanged:
                res.violate('graph-duplicate-name-accepted', f'step {k}: rejected duplicate node "{key[0]}" changed the graph')
                return 'dup'
            did = f'duplicate Node({key[0]})'
        elif kind in ('line', 'linex'):
            if len(keys) < 2: return None
            i = a % (len(keys) - 1)
            j = i + 1 + b % (len(keys) - 1 - i)
            dkey, rkey = keys[i], keys[j]
            if e % 5 == 0: dkey, rkey = rkey, dkey
            if m.reaches(rkey, dkey): return None    # keep the graph acyclic (no self-loop either)
            rn = m.nodes[rkey]
            if rkey[1] and 0 in rn['ins']: return None       # at most one driver per fork
            dpin = rpin = None
            if kind == 'linex':
                res.probe('explicit_pin')
                if rkey[1]: rpin = 0
                else:
                    free = [p for p in range(len(rn['ins']) + 3) if p not in rn['ins']] + ([40] if 40 not in rn['ins'] and cc % 11 == 0 else [])
                    rpin = free[cc % len(free)]
                dn = m.nodes[dkey]
                if dkey[1]: dpin = len(dn['outs'])             # forks: only the next position
                else:
                    free = [p for p in range(len(dn['outs']) + 3) if p not in dn['outs']]
                    dpin = free[d % len(free)]
                if e % 3 == 0: dpin_arg, dpin = self.node_obj(dkey), None       # mixed: implicit driver, explicit reader
                else: dpin_arg = (self.node_obj(dkey), dpin)
                Line(c, dpin_arg, (self.node_obj(rkey), rpin))
            else:
                Line(c, self.node_obj(dkey), self.node_obj(rkey))
            m.add_line(dkey, dpin, rkey, rpin)
            did = f'Line({dkey[0]}->{rkey[0]}, pins {dpin},{rpin})'
        elif kind == 'wide':
            self.names += 1
            fname, cname = f'n{self.names}w', f'n{self.names}wc'
            f = Node(c, fname); m.add_node(fname, '__fork__')
            g = Node(c, cname, 'and'); m.add_node(cname, 'and')
            for pin in range(a):
                if pin % 2: Line(c, f, (g, pin))
                else: Line(c, (f, pin), (g, pin))
                m.add_line((fname, True), pin if pin % 2 == 0 else None, (cname, False), pin)
            res.probe('wide_fork')
            did = f'fork with {a} branches'
        elif kind == 'many':
            for j in range(a):
                self.names += 1
                nk = '__fork__' if (b >> (j % 16)) & 1 and j % 5 == 0 else ['buf', 'FILL1', 'and', 'DECAP'][j % 4]
                name = f'n{self.names}sp'
                Node(c, name, nk); m.add_node(name, nk)
            res.probe('many_unconnected_nodes')
            did = f'{a} unconnected nodes'
        elif kind == 'rmline':
            if not m.lines: return None
            lids = sorted(m.lines)
            lid = lids[a % len(lids)]
            lo = self.line_obj(lid)
            if lo.index != len(c.lines) - 1: self.hole = True; res.probe('hole_filled_by_last')
            if m.lines[lid][0][1] and m.lines[lid][1] < len(m.nodes[m.lines[lid][0]]['outs']) - 1: res.probe('fork_squeeze')
            lo.remove()
            if lo.circuit is not None or lo.driver is not None or lo.reader is not None:
                res.violate('graph-removed-line-still-attached', f'step {k}: a removed line still records circuit/driver/reader')
            if b % 4 == 0:
                lo.remove()      # removing a stale handle again must change nothing
                res.probe('double_remove')
            m.remove_line(lid)
            did = f'Line.remove({lid})'
        elif kind == 'rmnode':
            cand = [kk for kk in keys if not m.nodes[kk]['ins'] and not m.nodes[kk]['outs'] and kk not in m.io]
            if not cand: return None
            key = cand[a % len(cand)]
            no = self.node_obj(key)
            if no.index != len(c.nodes) - 1: self.hole = True; res.probe('hole_filled_by_last')
            no.remove()
            if no.circuit is not None:
                res.violate('graph-removed-node-still-attached', f'step {k}: a removed node still records its circuit')
            if b % 4 == 0:
                no.remove()
                res.probe('double_remove')
            m.remove_node(key)
            did = f'Node.remove({key[0]})'
        elif kind == 'gof':
            forks = [kk for kk in keys if kk[1]]
            if forks and a % 2 == 0:
                key = forks[b % len(forks)]
                n = c.get_or_add_fork(key[0])
                if n is not self.node_obj(key): res.violate('graph-name-lookup', f'step {k}: get_or_add_fork("{key[0]}") returned a different node')
            else:
                self.names += 1
                name = f'n{self.names}'
                c.get_or_add_fork(name)
                m.add_node(name, '__fork__')
            did = 'get_or_add_fork'
        elif kind in ('io', 'ioset'):
            cand = [kk for kk in keys if kk not in m.io] if e % 9 else list(keys)      # rarely a node is listed as port twice (bench: input(x) output(x))
            if not cand: return None
            key = cand[a % len(cand)]
            if kind == 'io' or not m.io:
                c.io_nodes.append(self.node_obj(key)); m.io.append(key)
            else:
                pos = b % (len(m.io) + 1)
                if pos == len(m.io): c.io_nodes[pos] = self.node_obj(key); m.io.append(key)
                else: c.io_nodes[pos] = self.node_obj(key); m.io[pos] = key
            did = 'io_nodes'
        elif kind == 'elim':
            before = len(m.nodes)
            und = any(kk[1] and kk not in m.io and len(v['outs']) == 1 and 0 not in v['ins'] for kk, v in m.nodes.items())
            c.eliminate_1to1_forks()
            m.eliminate_1to1_forks()
            if len(m.nodes) < before: res.probe('eliminate_spliced'); self.hole = True
            if und: res.probe('eliminate_kept_undriven')
            did = 'eliminate_1to1_forks'
        elif kind == 'subst':
            cand = [kk for kk in keys if not kk[1] and kk not in m.io]
            if not cand: return None
            key = cand[a % len(cand)]
            nd = m.nodes[key]
            n_in = (max(nd['ins']) + 1 if nd['ins'] else 0) + (b % 2)
            n_out = (max(nd['outs']) + 1 if nd['outs'] else 0) + (cc % 2 if nd['outs'] else 0)
            n_in = max(n_in, len(self.node_obj(key).ins))
            n_out = max(n_out, len(self.node_obj(key).outs))
            self.names += 1
            real = self.node_obj(key)
            if e % 6 == 0 and len(real.ins) >= 1:
                # an implementation with too few input ports: the call is rejected, and a rejected call changes nothing
                text, _nu = impl_text(d, len(real.ins) - 1, max(1, n_out), self.names)
                with contextlib.redirect_stdout(io.StringIO()):
                    impl = bench.parse(text)
                    impl.eliminate_1to1_forks()
                before = graphsim.real_signature(c)
                try:
                    c.substitute(real, impl)
                    res.violate('graph-mismatching-substitute-accepted', f'step {k}: substitute accepted an implementation with {len(real.ins) - 1} input ports for a node with {len(real.ins)} input pins')
                    return 'subst_bad'
                except (AssertionError, ValueError, IndexError, TypeError):
                    res.probe('mismatching_substitute_rejected')
                if graphsim.real_signature(c) != before:
                    res.violate('graph-rejected-substitute-changed-graph', f'step {k}: a rejected substitute (too few input ports) left the graph changed')
                    return 'subst_bad'
                return f'rejected substitute({key[0]})'
            text, n_unused = impl_text(d, n_in, n_out, self.names)
            with contextlib.redirect_stdout(io.StringIO()):
                impl = bench.parse(text)
                impl.eliminate_1to1_forks()
            if n_unused: res.probe('substitute_ignored_input')
            c.substitute(self.node_obj(key), impl)
            res.probe('substitute_done')
            self.resync = True      # too rich to predict: re-synchronise the model once the invariants have been checked
            self.hole = True
            did = f'substitute({key[0]}, {text[:60]})'
        elif kind in ('copy', 'restore'):
            new = graphsim.restore(c, 'copy' if kind == 'copy' else ['pickle', 'pickle', 'pickle0', 'pickle2', 'deepcopy'][a % 5], res)
            try:
                same = (new == c)
            except Exception as ex:  # noqa
                same = False
            if not same:
                res.violate('graph-restore-not-equal', f'step {k}: {"copy()" if kind == "copy" else "pickle round trip"} gives a circuit that does not compare equal to the original')
            if len(self.left_behind) < 4: self.left_behind.append((c, graphsim.real_signature(c), k, kind))      # the object the history leaves behind
            self.c = new
            self.restored = True
            res.fault('F-restore')
            res.probe('copy_mid_history' if kind == 'copy' else 'restore_mid_history')
            did = kind
        if did is not None and self.hole and kind not in ('rmline', 'rmnode'): self.dirty_after_hole = True
        return did


def execute(case):
    res = core.Result()
    ex = Exec(res)
    n_done = 0
    edits_after_restore = False
    for k, op in enumerate(case['ops']):
        was_restored = ex.restored
        did = ex.step(k, op)
        if did is None: continue
        n_done += 1
        res.count('history_steps')
        res.log.add(k, op[0], len(ex.c.nodes), len(ex.c.lines))
        if res.violations: return res
        if not graphsim.check_invariants(ex.c, res, k, did): return res
        if ex.resync:
            ex.m = RefGraph.from_real(ex.c)
            ex.resync = False
        if not graphsim.check_iso(ex.c, ex.m, res, k, did): return res
        if was_restored and op[0] not in ('copy', 'restore'): edits_after_restore = True
    # the objects that copies were taken from were not edited any more: they must be exactly what they were, whatever was done
    # to their copies (a copy that shares nodes, lines or tables with its original would show here)
    for old, sig, k0, how in ex.left_behind:
        if graphsim.real_signature(old) != sig:
            res.violate('graph-copy-not-independent', f'the circuit that step {k0} ({how}) was taken from changed although only its copy was edited afterwards')
            return res
        if not graphsim.check_invariants(old, res, k0, f'object left behind by {how}'): return res
        res.probe('original_checked_after_edits_on_copy')
    res.nontrivial = ex.dirty_after_hole or edits_after_restore
    return res


def shrinks(case):
    ops = case['ops']
    n = len(ops)
    k = n // 2
    while k >= 1:
        for a in range(0, n, k):
            cand = ops[:a] + ops[a + k:]
            if len(cand) < n: yield {'ops': cand}
        k //= 2
    for j, op in enumerate(ops):
        if any(v > 3 for v in op[1:]):
            yield {'ops': ops[:j] + [[op[0]] + [v % 4 for v in op[1:]]] + ops[j + 1:]}


def sample(case):
    return {'ops': case['ops'][:40]}
