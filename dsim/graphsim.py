"""C09/C10 support: RefGraph (dict-based reference model of a circuit graph), structural invariants over a real
kyupy Circuit, and the history executor for the public editing API."""
import pickle

from . import core


class RefGraph:
    """Reference model. Node key = (name, is_fork). Pin lists are dicts pin -> line id."""

    def __init__(self):
        self.nodes = {}    # key -> {'kind', 'ins': {pin: lid}, 'outs': {pin: lid}, 'seq'}
        self.lines = {}    # lid -> [dkey, dpin, rkey, rpin]
        self.io = []       # keys
        self.next_lid = 0
        self.next_seq = 0

    def add_node(self, name, kind):
        key = (name, kind == '__fork__')
        self.nodes[key] = {'kind': kind, 'ins': {}, 'outs': {}, 'seq': self.next_seq}
        self.next_seq += 1
        return key

    @staticmethod
    def first_free(pins):
        p = 0
        while p in pins: p += 1
        return p

    def add_line(self, dkey, dpin, rkey, rpin):
        d, r = self.nodes[dkey], self.nodes[rkey]
        if dpin is None: dpin = self.first_free(d['outs'])
        if rpin is None: rpin = self.first_free(r['ins'])
        lid = self.next_lid
        self.next_lid += 1
        self.lines[lid] = [dkey, dpin, rkey, rpin]
        d['outs'][dpin] = lid
        r['ins'][rpin] = lid
        return lid

    def remove_line(self, lid):
        dkey, dpin, rkey, rpin = self.lines.pop(lid)
        d = self.nodes[dkey]
        del d['outs'][dpin]
        if dkey[1]:   # fork: squeeze outputs
            new = {}
            for p, l in sorted(d['outs'].items()):
                q = p - 1 if p > dpin else p
                new[q] = l
                self.lines[l][1] = q
            d['outs'] = new
        del self.nodes[rkey]['ins'][rpin]

    def reaches(self, a, b):
        """True if b is reachable from a along lines (a == b counts)."""
        seen, stack = set(), [a]
        while stack:
            k = stack.pop()
            if k == b: return True
            if k in seen: continue
            seen.add(k)
            for lid in self.nodes[k]['outs'].values(): stack.append(self.lines[lid][2])
        return False

    def remove_node(self, key):
        del self.nodes[key]

    def eliminate_1to1_forks(self):
        io = set(self.io)
        for key in [k for k in self.nodes if k[1]]:
            n = self.nodes.get(key)
            if n is None or key in io: continue
            if len(n['outs']) != 1 or 0 not in n['outs']: continue
            if 0 not in n['ins']: continue           # undriven signal: kept
            in_l, out_l = n['ins'][0], n['outs'][0]
            _, _, rkey, rpin = self.lines[out_l]
            del self.lines[out_l]
            del self.nodes[key]
            self.lines[in_l][2], self.lines[in_l][3] = rkey, rpin
            self.nodes[rkey]['ins'][rpin] = in_l

    def signature(self):
        nodes = {k: v['kind'] for k, v in self.nodes.items()}
        lines = sorted((tuple(l) for l in self.lines.values()), key=repr)      # (names may be of any hashable type: order by their representation)
        return nodes, lines, list(self.io)

    @staticmethod
    def from_real(c):
        g = RefGraph()
        for n in c.nodes:
            key = g.add_node(n.name, n.kind)
        for l in c.lines:
            dk = (l.driver.name, l.driver.kind == '__fork__')
            rk = (l.reader.name, l.reader.kind == '__fork__')
            g.add_line(dk, l.driver_pin, rk, l.reader_pin)
        g.io = [(n.name, n.kind == '__fork__') for n in c.io_nodes]
        return g


def real_signature(c):
    nodes = {(n.name, n.kind == '__fork__'): n.kind for n in c.nodes}
    lines = sorted((((l.driver.name, l.driver.kind == '__fork__'), l.driver_pin, (l.reader.name, l.reader.kind == '__fork__'), l.reader_pin) for l in c.lines), key=repr)
    io = [(n.name, n.kind == '__fork__') for n in c.io_nodes]
    return nodes, lines, io


def check_invariants(c, res, step, what):
    """The statement of C09, clause by clause, on the real object. Returns False at the first violation."""
    def bad(kind, msg):
        res.violate(kind, f'after step {step} ({what}): {msg}')
        return False
    # indices consecutive and equal to list positions
    for i, n in enumerate(c.nodes):
        if n.index != i: return bad('graph-node-index', f'nodes[{i}] ("{n.name}") has index {n.index}')
        if n.circuit is not c: return bad('graph-node-index', f'nodes[{i}] ("{n.name}") does not belong to the circuit')
    for i, l in enumerate(c.lines):
        if l.index != i: return bad('graph-line-index', f'lines[{i}] has index {l.index}')
        if l.circuit is not c: return bad('graph-line-index', f'lines[{i}] does not belong to the circuit')
    # name lookups
    n_forks = n_cells = 0
    for n in c.nodes:
        d = c.forks if n.kind == '__fork__' else c.cells
        if n.kind == '__fork__': n_forks += 1
        else: n_cells += 1
        if d.get(n.name) is not n: return bad('graph-name-lookup', f'{"fork" if n.kind == "__fork__" else "cell"} lookup of "{n.name}" gives {d.get(n.name)!r}, not the node at index {n.index}')
    if len(c.forks) != n_forks or len(c.cells) != n_cells:
        return bad('graph-name-lookup', f'lookup tables hold {len(c.forks)} forks / {len(c.cells)} cells, the node list {n_forks} / {n_cells}')
    # every line referenced from exactly the pins it records and from nowhere else
    ref_out, ref_in = {}, {}
    for n in c.nodes:
        for p, l in enumerate(n.outs):
            if l is None:
                if n.kind == '__fork__': return bad('graph-fork-gap', f'fork "{n.name}" has an empty output position {p} of {len(n.outs)}')
                continue
            ref_out[id(l)] = ref_out.get(id(l), 0) + 1
            if l.driver is not n or l.driver_pin != p: return bad('graph-line-reference', f'output pin {p} of "{n.name}" references a line recording driver "{getattr(l.driver, "name", None)}" pin {l.driver_pin}')
            if l.index is None or l.index >= len(c.lines) or c.lines[l.index] is not l: return bad('graph-line-reference', f'output pin {p} of "{n.name}" references a line that is not in the circuit')
        for p, l in enumerate(n.ins):
            if l is None: continue
            ref_in[id(l)] = ref_in.get(id(l), 0) + 1
            if l.reader is not n or l.reader_pin != p: return bad('graph-line-reference', f'input pin {p} of "{n.name}" references a line recording reader "{getattr(l.reader, "name", None)}" pin {l.reader_pin}')
            if l.index is None or l.index >= len(c.lines) or c.lines[l.index] is not l: return bad('graph-line-reference', f'input pin {p} of "{n.name}" references a line that is not in the circuit')
    for l in c.lines:
        d, r = l.driver, l.reader
        if d is None or r is None: return bad('graph-line-reference', f'line {l.index} has no driver/reader')
        if d.index is None or d.index >= len(c.nodes) or c.nodes[d.index] is not d: return bad('graph-line-reference', f'line {l.index} driver "{d.name}" is not a node of the circuit')
        if r.index is None or r.index >= len(c.nodes) or c.nodes[r.index] is not r: return bad('graph-line-reference', f'line {l.index} reader "{r.name}" is not a node of the circuit')
        if l.driver_pin >= len(d.outs) or d.outs[l.driver_pin] is not l: return bad('graph-line-reference', f'line {l.index} records driver "{d.name}" pin {l.driver_pin}, which does not reference it')
        if l.reader_pin >= len(r.ins) or r.ins[l.reader_pin] is not l: return bad('graph-line-reference', f'line {l.index} records reader "{r.name}" pin {l.reader_pin}, which does not reference it')
        if ref_out.get(id(l), 0) != 1 or ref_in.get(id(l), 0) != 1:
            return bad('graph-line-reference', f'line {l.index} is referenced from {ref_out.get(id(l), 0)} output pins and {ref_in.get(id(l), 0)} input pins')
    for k, n in enumerate(c.io_nodes):
        if n is None: continue
        if n.index is None or n.index >= len(c.nodes) or c.nodes[n.index] is not n: return bad('graph-io', f'io_nodes[{k}] ("{n.name}") is not a node of the circuit')
    # statistics
    st = c.stats
    exp = {'__node__': len(c.nodes), '__cell__': n_cells, '__fork__': n_forks, '__io__': len(c.io_nodes), '__line__': len(c.lines)}
    dff = latch = comb = 0
    for n in c.nodes:
        if n.kind == '__fork__': continue
        exp[n.kind] = exp.get(n.kind, 0) + 1
        k = n.kind.lower()
        if 'dff' in k: dff += 1
        elif 'latch' in k: latch += 1
        elif 'put' not in k: comb += 1
    for k, v in (('__dff__', dff), ('__latch__', latch), ('__comb__', comb)):
        if v or k in st: exp[k] = v
    exp['__seq__'] = dff + latch
    for k in set(exp) | set(st):
        if exp.get(k, 0) != st.get(k, 0): return bad('graph-stats', f'stats[{k!r}] = {st.get(k)} but the containers hold {exp.get(k, 0)}')
    return True


def check_iso(c, model, res, step, what):
    rn, rl, rio = real_signature(c)
    mn, ml, mio = model.signature()
    if rn != mn:
        d = sorted(set(rn.items()) ^ set(mn.items()), key=repr)[:4]
        res.violate('graph-model-mismatch', f'after step {step} ({what}): node sets differ: {d}'); return False
    if rl != ml:
        d = sorted(set(rl) ^ set(ml), key=repr)[:4]
        res.violate('graph-model-mismatch', f'after step {step} ({what}): connectivity differs from the reference model: {d}'); return False
    if rio != mio:
        res.violate('graph-model-mismatch', f'after step {step} ({what}): port list {rio[:6]} vs reference {mio[:6]}'); return False
    return True


def restore(c, how, res):
    """F-restore: only the serialised state survives."""
    if how == 'copy':
        return c.copy()
    if how == 'deepcopy':
        import copy
        return copy.deepcopy(c)
    proto = {'pickle0': 0, 'pickle2': 2}.get(how, pickle.HIGHEST_PROTOCOL)
    data = pickle.dumps(c, protocol=proto)
    res.count('pickled_bytes', len(data))
    return pickle.loads(data)
