"""Token executor: runs the *real* schedule (ops, level_starts/stops) and memory map (c_locs, c_caps, c_len) of a SimOps
object with tokens instead of waveforms.  Gate evaluation is a stub; schedule and map are the real objects.  Works at
any size (b15) and for the capacity-1 flavour that LogicSim builds.  Range-wise M1/M2:

  * every operand range must, when an op of level k runs, hold the token of the operand's producer (harness's own walk
    up stripped forks), written in a level < k; interface inputs hold their input token; the constant slot is untouched;
  * inside a level no op may write a cell another op of the level reads or writes (scratch-slot role exemption);
  * at the end every captured line and every interface input slot still holds its token;
  * all ranges lie inside [0, c_len).
"""
import random

import numpy as np

from .simcuda import T_NONE, T_TMP, PPI_BASE
from .wsim import MapMeta


def static_map_checks(meta, res, strip_forks):
    n = meta.c_len
    circuit = meta.circuit
    # bounds
    for x in range(len(meta.c_locs)):
        a, b = meta.range_of(x)
        if a < 0:
            continue
        if b > n or b <= a:
            res.violate('map-out-of-bounds', f'index {x}: range [{a},{b}) outside the reported total size {n}')
            return False
    # every line read by an op, and every op output, is allocated
    for r, op in enumerate(meta.ops):
        for x in op[1:6]:
            if meta.c_locs[int(x)] < 0:
                res.violate('map-unallocated', f'op row {r} uses index {int(x)} which has no memory location')
                return False
    # special and interface slots are pairwise disjoint and disjoint from every produced line
    fixed = [('zero', meta.zero_idx), ('tmp', meta.tmp_idx), ('tmp2', meta.tmp2_idx)]
    for i in range(len(meta.snodes)):
        if meta.c_locs[meta.ppi_offset + i] >= 0: fixed.append((f'input slot {i}', meta.ppi_offset + i))
    occ = np.full(n, -1, dtype=np.int64)
    for k, (nm, x) in enumerate(fixed):
        a, b = meta.range_of(x)
        if (occ[a:b] >= 0).any():
            res.violate('map-fixed-slot-overlap', f'{nm} [{a},{b}) overlaps {fixed[int(occ[a:b].max())][0]}')
            return False
        occ[a:b] = k
    for z in meta.producer_row:
        if z >= meta.n_lines: continue
        a, b = meta.range_of(z)
        if (occ[a:b] >= 0).any():
            res.violate('map-fixed-slot-overlap', f'line {z} [{a},{b}) overlaps {fixed[int(occ[a:b].max())][0]}')
            return False
    # aliases: a stripped branch and every output slot stand exactly for their signal (location and capacity)
    for l in range(meta.n_lines):
        rt = meta.root(l)
        if rt is None or rt == l: continue
        if meta.c_locs[l] < 0: continue   # branch nobody reads
        if meta.range_of(l) != meta.range_of(rt):
            res.violate('map-alias-mismatch', f'stripped branch line {l} maps to {meta.range_of(l)} but its stem line {rt} to {meta.range_of(rt)}')
            return False
        res.probe('alias_checked')
    for i, l in meta.captured_lines():
        if meta.range_of(meta.ppo_offset + i) != meta.range_of(l):
            if meta.c_locs[l] < 0 and meta.c_locs[meta.ppo_offset + i] < 0: continue
            res.violate('map-alias-mismatch', f'output slot {i} maps to {meta.range_of(meta.ppo_offset + i)} but the line feeding it ({l}) to {meta.range_of(l)}')
            return False
    for i, n_ in enumerate(meta.snodes):
        if (len(n_.ins) == 0 or n_.ins[0] is None) and meta.c_locs[meta.ppo_offset + i] >= 0:
            res.violate('map-alias-mismatch', f'output slot {i} has a location although nothing feeds it')
            return False
    return True


def token_run(meta, order_seed, res, label=''):
    n = meta.c_len
    tag = np.full(n, T_NONE, dtype=np.int64)
    lvl = np.full(n, -1, dtype=np.int64)     # level in which the cell was last written
    for i in range(len(meta.snodes)):
        if meta.c_locs[meta.ppi_offset + i] >= 0:
            a, b = meta.range_of(meta.ppi_offset + i)
            tag[a:b] = PPI_BASE + i
    rng = random.Random(order_seed)
    recycled = False
    for k, (r0, r1) in enumerate(zip(meta.level_starts, meta.level_stops)):
        rows = list(range(r0, r1))
        rng.shuffle(rows)
        wr_owner = {}   # cell -> row writing it in this level
        rd_rows = {}    # cell -> rows reading it in this level
        for r in rows:
            op = meta.ops[r]
            z = int(op[1])
            for x in op[2:6]:
                x = int(x)
                a, b = meta.range_of(x)
                exp = meta.expected_tag(x)
                if x == meta.zero_idx:
                    if (tag[a:b] != T_NONE).any():
                        res.violate('token-constant-clobbered', f'{label}level {k} row {r}: constant slot [{a},{b}) was written by {meta.tag_str(int(tag[a:b].max()))}')
                        return False
                    continue
                if x in (meta.tmp_idx, meta.tmp2_idx): continue
                bad = np.flatnonzero(tag[a:b] != exp)
                if len(bad):
                    res.violate('token-stale-operand', f'{label}level {k} row {r} (out {z}): operand {x} range [{a},{b}) should hold {meta.tag_str(exp)}, cell {a + int(bad[0])} holds {meta.tag_str(int(tag[a + bad[0]]))}')
                    return False
                if exp < PPI_BASE and exp >= 0 and (lvl[a:b] >= k).any():
                    res.violate('token-same-level-dependency', f'{label}level {k} row {r} (out {z}): operand {x} is produced in the same level')
                    return False
                for cell in range(a, b): rd_rows.setdefault(cell, []).append(r)
        for r in rows:
            op = meta.ops[r]
            z = int(op[1])
            a, b = meta.range_of(z)
            for cell in range(a, b):
                o = wr_owner.get(cell)
                if o is not None and not (z == meta.tmp_idx and int(meta.ops[o][1]) == meta.tmp_idx):
                    res.violate('token-level-write-conflict', f'{label}level {k}: rows {o} and {r} both write cell {cell}')
                    return False
                wr_owner[cell] = r
                for rr in rd_rows.get(cell, ()):
                    if rr != r and z != meta.tmp_idx:
                        res.violate('token-level-read-write-conflict', f'{label}level {k}: row {r} (out {z}) writes cell {cell} which row {rr} reads in the same level '
                                                                        f'(memory released and handed out again within the level, or a dependency inside the level)')
                        return False
            if z != meta.tmp_idx and (tag[a:b] >= 0).any() and (tag[a:b] < PPI_BASE).any(): recycled = True
            tag[a:b] = T_TMP if z == meta.tmp_idx else z
            lvl[a:b] = k
    # results are read after the last level: captured lines and input slots must be intact
    for i, l in meta.captured_lines():
        rt = meta.root(l)
        if rt is None or meta.c_locs[l] < 0: continue
        a, b = meta.range_of(l)
        bad = np.flatnonzero(tag[a:b] != rt)
        if len(bad):
            res.violate('token-output-clobbered', f'{label}line {l} feeding port/state element {i}: cell {a + int(bad[0])} holds {meta.tag_str(int(tag[a + bad[0]]))} when results are read')
            return False
    for i in range(len(meta.snodes)):
        if meta.c_locs[meta.ppi_offset + i] >= 0:
            a, b = meta.range_of(meta.ppi_offset + i)
            if (tag[a:b] != PPI_BASE + i).any():
                res.violate('token-input-clobbered', f'{label}input slot {i} was overwritten during propagation')
                return False
    if recycled: res.probe('token_chunk_recycled')
    return True


def check_simops(simops, circuit, order_seeds, res, strip_forks, label=''):
    meta = MapMeta(simops, circuit)
    if meta.dup_producers:
        res.violate('line-produced-twice', f'{label}lines {meta.dup_producers[:5]} are the output of more than one operation'); return meta
    if not static_map_checks(meta, res, strip_forks): return meta
    for s in order_seeds:
        res.count('token_runs')
        if not token_run(meta, s, res, label): break
    return meta
