"""C10 - copy, pickle, fork elimination and cell substitution preserve function.

There is no schedule here; the in-family content is the *history* of transformations (the property quantifies over all
transformations and their compositions) with F-restore (pickle -> drop -> unpickle, copy) as the crash/restart step.
Workload: a seeded netlist of primitive gates, flip-flops/latches and library-cell instances (one of the five built-in
libraries per case, a random subset of instance pins connected), then 1-8 steps from {copy, pickle round trip,
eliminate_1to1_forks, substitute(node, generated implementation), resolve_tlib_cells(lib)}.
After every step: [n.name for n in s_nodes] unchanged and the exhaustive 2-valued table over ports + state elements
(RefEval: hierarchical through implementation circuits before a cell is resolved, flat afterwards) unchanged.
"""
import contextlib
import io

from .. import core, graphsim, refmodels
from .. import gen as cgen

PROP = 'C10'
TIERS = {
    'quick': {'runs': 20000, 'chunk': 50, 'wall_cap': 80, 'min_budget': 30},
    'thorough': {'runs': 200000, 'chunk': 50, 'wall_cap': 850, 'min_budget': 60},
}
RULE = ('case = seeded netlist (<= 5 inputs, primitive gates, <= 2 primitive flip-flops/latches, 1-4 library instances of ONE built-in library; run i instantiates catalogue entry i mod |catalogue| so that every cell name '
        'of every library is reached; instance pins connected by a random mask) + 1-8 transformation steps; one case in 3000 starts from the shipped netlist b15_2ig.v.gz (~43000 nodes) instead; table domain = ports and state elements (<= 10 variables exhaustive, else 1024 pseudo-random rows derived from the variable names), '
        'observation = value at the data pin of every port/state element (unconnected = 0); non-trivial iff a resolve or substitute step was executed on a circuit containing an instance with an unconnected pin or '
        'a sequential/multi-output cell, or a restore happened between two other transformations; distinct = distinct case digests')
REAL_VS_STUB = {'real': ['kyupy.circuit.Circuit: copy, __getstate__/__setstate__ (pickle), eliminate_1to1_forks, substitute, remove_dangling_nodes, resolve_tlib_cells, s_nodes', 'kyupy.techlib libraries and kyupy.bench.parse (providers of implementation circuits, trusted)', 'kyupy.logic_sim.LogicSim + kyupy.sim.SimOps on the transformed circuit (second observation of the function)', 'kyupy.verilog.load of tests/b15_2ig.v.gz (starting point of one history in 3000)'],
                'stub': ['none; RefEval is the reference evaluator']}
ASSUMPTIONS = ['the set of cell names every library must offer is the pinned tree\'s (dsim/data/libcells.json, 1026 names); additional cells are fine', 'an instance input pin is left unconnected only where "reads 0" and "not connected" give the cell the same function (otherwise the function before resolving is ambiguous)',
               'the function of a sequential library instance is defined through its implementation: state = the state element inside, result = value at that element\'s data pin',
               'one library per case; resolve_tlib_cells is called with the library the instances were taken from']
EXPECTED_PROBES = ['earlier_output_pin_left_open', 'spare_cells', 'shipped_netlist', 'fork_as_port', 'library_simulation_compared', 'manual_buffer_inserted', 'implementation_reused_after_edit', 'nested_multi_output_impl', 'resolve_step', 'substitute_step', 'restore_step', 'elim_step', 'unconnected_input_pin', 'unconnected_output_pin', 'sequential_cell', 'multi_output_cell', 'cell_without_output', 'ignored_pin_cell']

LIBS = ['GSC180', 'NANGATE', 'NANGATE_ZN', 'SAED32', 'SAED90']
HIDDEN_LATCH = ('DLH_X', 'DLL_X', 'TLAT_X1', 'TLATX1', 'TLATSRX1')
_cat = None


def catalogue():
    global _cat
    if _cat is None:
        import kyupy.techlib as tl
        _cat = []
        for li, ln in enumerate(LIBS):
            for name in getattr(tl, ln).cells: _cat.append((li, name))
    return _cat


def lib_of(li):
    import kyupy.techlib as tl
    return getattr(tl, LIBS[li])


def gen(rng, tier, i):
    if i % 3000 == 7:
        steps = [[rng.choice(['copy', 'pickle', 'elim', 'resolve', 'subst', 'buf']), rng.randrange(1 << 16), rng.randrange(1 << 16)] for _ in range(rng.randint(1, 4))]
        steps.insert(rng.randint(0, len(steps)), ['resolve', 0, 0])
        return {'net': 'b15_2ig.v.gz', 'branchforks': rng.random() < 0.5, 'lib': LIBS.index('SAED32'), 'n_in': 0, 'items': [], 'outs': [], 'fmode': [0], 'steps': steps}
    cat = catalogue()
    li, forced = cat[i % len(cat)]
    names = sorted(lib_of(li).cells)
    n_in = rng.randint(1, 5)
    items = []
    n_items = rng.randint(2, 10)
    lib_pos = sorted(rng.sample(range(n_items), k=min(n_items, rng.randint(1, 3))))
    first = True
    for j in range(n_items):
        if j in lib_pos:
            cell = forced if first else rng.choice(names)
            first = False
            items.append(['lib', cell, [rng.randrange(1 << 16) for _ in range(8)], rng.choice([0xff, 0xff, 0xff, rng.randrange(256)]), 0])
        elif rng.random() < 0.15:
            items.append(['ff', rng.choice(['dff', 'DFF', 'latch']), rng.randrange(1 << 16)])
        else:
            kind = rng.choice(cgen.N_ARY + [k for k in cgen.FIXED])
            n = cgen.FIXED[kind] if kind in cgen.FIXED else rng.randint(2, 4)
            items.append(['g', kind, [rng.randrange(1 << 16) for _ in range(n)]])
    steps = []
    for _ in range(rng.randint(1, 8)):
        k = rng.choice(['copy', 'pickle', 'elim', 'resolve', 'resolve', 'subst', 'subst', 'buf'])
        steps.append([k, rng.randrange(1 << 16), rng.randrange(1 << 16)])
    if not any(s[0] == 'resolve' for s in steps): steps.insert(rng.randint(0, len(steps)), ['resolve', 0, 0])
    return {'lib': li, 'n_in': n_in, 'items': items, 'outs': [rng.randrange(1 << 16) for _ in range(rng.randint(1, 4))], 'out_all_unread': rng.random() < 0.6,
            'fmode': [rng.choice([0, 0, 1, 2, 3]) for _ in range(rng.randint(1, 5))], 'steps': steps, 'bench_ports': rng.random() < 0.25, 'ports_first': rng.random() < 0.3, 'node_order': rng.randrange(1, 1 << 16) if rng.random() < 0.4 else 0,
            'spare': rng.choice([200, 260, 300]) if rng.random() < 0.03 else 0}      # spare cells created before the logic: node indices beyond 255 in a netlist with few lines


def cell_pins(impl):
    return len([n for n in impl.io_nodes if len(n.ins) == 0]), len([n for n in impl.io_nodes if len(n.ins) > 0])


HALF_ADDER = ['ADDHX1', 'HA_X1', 'HA_X1', 'HADDX1_RVT', 'HADDX1']


def impl_nested(ha, n_in, n_out, uid):
    """Implementation built through the API: a nested two-output library cell whose SECOND output pin drives the first port."""
    from kyupy.circuit import Circuit, Node, Line
    c = Circuit('nested')
    ins = [Node(c, f'a{uid}i{k}') for k in range(n_in)]
    h = Node(c, f'h{uid}', ha)
    Line(c, ins[0], (h, 0))
    Line(c, ins[1], (h, 1))
    outs = []
    for k in range(n_out):
        o = Node(c, f'y{uid}o{k}')
        Line(c, (h, 1 - (k % 2)) if k < 2 else (Node(c, f'b{uid}x{k}', 'buf'), 0), (o, 0))
        if k >= 2: Line(c, ins[k % n_in], (c.cells[f'b{uid}x{k}'], 0))
        outs.append(o)
    for n in ins + outs: c.io_nodes.append(n)
    return c, f'nested {ha}: port0 <- pin 1, port1 <- pin 0'


_amb = {}


def ambiguous_pin(li, cell, k):
    """True if leaving input pin k open gives the cell a different function under 'reads 0' than under 'not connected'."""
    key = (li, cell, k)
    if key in _amb: return _amb[key]
    from kyupy.circuit import Circuit, Node, Line
    tlib = lib_of(li)
    impl = tlib.cells[cell][0]
    n_in, n_out = cell_pins(impl)
    res = []
    for zero_driver in (False, True):
        c = Circuit('amb')
        inst = Node(c, 'u', cell)
        for p in range(n_in):
            if p == k and not zero_driver: continue
            src = Node(c, f'i{p}', 'input') if p != k else Node(c, 'z', '__const0__')
            if p != k: c.io_nodes.append(src)
            Line(c, src, (inst, p))
        for p in range(n_out):
            o = Node(c, f'o{p}', 'output'); c.io_nodes.append(o)
            Line(c, (inst, p), o)
        res.append(table(c, [tlib], {}))
    # compare by name (the variable order differs by the missing input)
    a, b = res
    _amb[key] = (a[1] != b[1])
    return _amb[key]


def build(case, res):
    from kyupy.circuit import Circuit, Node, Line
    tlib = lib_of(case['lib'])
    c = Circuit('t')
    sigs = []      # (node, out pin)
    readers = []
    ins = []
    for k in range(max(1, case['n_in'])):
        n = Node(c, f'i{k}', 'input'); ins.append(n)
        sigs.append((n, 0)); readers.append([])
    ffs = []
    for k in range(case.get('spare') or 0):
        Node(c, f'spare{k}', 'buf')
    if case.get('spare'): res.probe('spare_cells')
    for j, it in enumerate(case['items']):
        avail = len(sigs)
        if it[0] == 'g':
            n = Node(c, f'g{j}', it[1])
            for pin, s in enumerate(it[2]): readers[s % avail].append((n, pin))
            sigs.append((n, 0)); readers.append([])
        elif it[0] == 'ff':
            n = Node(c, f'ff{j}', it[1]); ffs.append((n, it[2]))
            sigs.append((n, 0)); readers.append([])
            sigs.append((n, 1)); readers.append([])
        else:
            cell = it[1]
            impl = tlib.cells[cell][0]
            n_in, n_out = cell_pins(impl)
            n = Node(c, f'u{j}', cell)
            seq = any(refmodels.is_state(x) for x in impl.nodes)
            if seq: res.probe('sequential_cell')
            if n_out > 1: res.probe('multi_output_cell')
            if n_out == 0: res.probe('cell_without_output')
            if any(len(x.outs) == 0 for x in impl.io_nodes if len(x.ins) == 0): res.probe('ignored_pin_cell')
            for pin in range(n_in):
                connect = (it[3] >> pin) & 1
                if not connect and ambiguous_pin(case['lib'], cell, pin): connect = 1
                if connect: readers[it[2][pin % len(it[2])] % avail].append((n, pin))
                else: res.probe('unconnected_input_pin')
            for pin in range(n_out):
                sigs.append((n, pin)); readers.append([])
    n_sig = len(sigs)
    for n, dsrc in ffs: readers[dsrc % n_sig].append((n, 0))
    outs = []
    chosen = [s % n_sig for s in case['outs']]
    if case.get('out_all_unread'):
        chosen += [s for s in range(len(ins), n_sig) if not readers[s]]
    seen = set()
    port_fork = {}
    for s in chosen:
        if s in seen: continue
        seen.add(s)
        if case.get('bench_ports') and s >= len(ins):
            # bench style: the signal's fork IS the port (and may be read inside as well)
            o = Node(c, f'o{len(outs)}'); outs.append(o); port_fork[s] = o
            res.probe('fork_as_port')
            continue
        o = Node(c, f'o{len(outs)}', 'output'); outs.append(o)
        readers[s].append((o, 0))
    fmode = case['fmode'] or [0]
    for s in range(n_sig):
        pn, ppin = sigs[s]
        rd = readers[s]
        mode = fmode[s % len(fmode)]
        if s in port_fork:
            Line(c, (pn, ppin), (port_fork[s], 0))
            cgen._fan(c, port_fork[s], rd, mode if mode != 0 or len(rd) != 1 else 1, f's{s}')
            continue
        if not rd:
            if pn.kind in tlib.cells: res.probe('unconnected_output_pin')
            continue
        if len(rd) == 1 and mode == 0:
            Line(c, (pn, ppin), rd[0]); continue
        f = Node(c, f's{s}')
        Line(c, (pn, ppin), (f, 0))
        cgen._fan(c, f, rd, mode, f's{s}')
    for n in ins + outs: c.io_nodes.append(n)
    if case.get('ports_first') or case.get('node_order'):
        c = cgen.reorder(c, case.get('node_order') or 1, ports_first=bool(case.get('ports_first')))
    return c


_rows_cache = {}


def variable_patterns(nvars):
    """Bit-parallel truth-table columns: exhaustive up to 10 variables, else 1024 fixed pseudo-random rows."""
    if nvars in _rows_cache: return _rows_cache[nvars]
    if nvars <= 10:
        rows = 1 << nvars
        cols = []
        for v in range(nvars):
            x = 0
            for r in range(rows):
                if (r >> v) & 1: x |= 1 << r
            cols.append(x)
    else:
        rows = 1024
        state = 0x9E3779B97F4A7C15
        cols = []
        for v in range(nvars):
            x = 0
            for w in range(rows // 64):
                state = (state * 6364136223846793005 + 1442695040888963407) & ((1 << 64) - 1)
                x |= (state ^ (state >> 29)) << (64 * w)
            cols.append(x & ((1 << rows) - 1))
    _rows_cache[nvars] = (cols, (1 << rows) - 1)
    return _rows_cache[nvars]


_name_cols = {}


def columns_for(names):
    """Table columns of the variables: exhaustive by position up to 10 variables; beyond that 1024 pseudo-random rows derived
    from the variable's NAME (so that tables stay comparable by name whatever the order of the list)."""
    if len(names) <= 10: return variable_patterns(len(names))
    import hashlib
    cols = []
    for n in names:
        if n not in _name_cols:
            if len(_name_cols) > 20000: _name_cols.clear()
            _name_cols[n] = int.from_bytes(b''.join(hashlib.sha256(f'{n}/{k}'.encode()).digest() for k in range(4)), 'little')
        cols.append(_name_cols[n])
    return cols, (1 << 1024) - 1


def table(c, tlibs, overrides):
    """(names of ports/state elements in order, {name: table of the value at its data pin})."""
    ov = {}
    for n in c.nodes:
        if n.kind != '__fork__' and n.name in overrides: ov[id(n)] = overrides[n.name]
    ev = refmodels.RefEval(c, tlibs=tlibs, overrides=ov)
    names = [n.name for n in ev.snodes]
    cols, M = columns_for(names)
    obs, _e = ev.results(list(cols), M)
    return names, {n.name: (0 if o is None else o) for n, o in zip(ev.snodes, obs)}


def lib_prefix(kind):
    """The primitive kyupy.sim picks for a kind (first matching prefix in its table), None if it has none."""
    import kyupy.sim as ksim
    k = kind.lower()
    for prefix in ksim.kind_prefixes:
        if k.startswith(prefix): return prefix
    return None


def simulated_table(c, tlib, res):
    """The same table through the library's own LogicSim (2-valued), or None if the circuit is outside what both evaluators
    read the same way: a kind the simulator has no primitive for (unresolved library cell), or one the two prefix tables split differently."""
    import numpy as np
    from .. import lsim
    for n in c.nodes:
        if n.kind in tlib.cells: return None      # (an unresolved library cell may share its name with a primitive and order its pins differently)
        if n.kind == '__fork__' or refmodels.is_state(n) or n.kind.lower() in ('input', 'output') or any(n is x for x in c.io_nodes): continue
        lp = lib_prefix(n.kind)
        if lp is None or lp != refmodels.prim_of(n.kind): return None
    snodes = refmodels.s_nodes_of(c)
    cols, M = columns_for([n.name for n in snodes])
    rows = M.bit_length()
    mva = np.zeros((len(snodes), rows), dtype=np.uint8)
    for i, col in enumerate(cols):
        bits = np.frombuffer(col.to_bytes((rows + 7) // 8, 'little'), dtype=np.uint8)
        mva[i] = np.unpackbits(bits, bitorder='little')[:rows] * 3
    def shape(): return ([(len(n.ins), len(n.outs), n.kind) for n in c.nodes], [(id(l.driver), l.driver_pin, id(l.reader), l.reader_pin) for l in c.lines])
    shape0 = shape()
    with contextlib.redirect_stdout(io.StringIO()):
        sim = lsim.make(c, rows, 2, False, False)
    lsim.assign(sim, mva)
    lsim.run(sim)
    if shape0 != shape():
        # a simulator is a reader of the circuit: the next transformation must find the circuit as the previous one left it
        res.violate('circuit-modified-by-simulator', 'building and running a LogicSim changed the circuit object (pin lists, kinds, lines or connectivity): later transformations work on something else than what was simulated')
        raise core.AbortRun(res)
    out = lsim.result_mv(sim)
    tab = {}
    for i, n in enumerate(snodes):
        if len(n.ins) == 0 or n.ins[0] is None: continue
        b = np.packbits((out[i] & 1).astype(np.uint8), bitorder='little').tobytes()
        tab[n.name] = int.from_bytes(b, 'little') & M
    res.probe('library_simulation_compared')
    return tab


_missing = {}


def missing_cells(li):
    """Cell names of the pinned tree (dsim/data/libcells.json) that the library no longer offers."""
    if li not in _missing:
        import json, os
        pinned = json.load(open(os.path.join(os.path.dirname(os.path.dirname(os.path.abspath(__file__))), 'data', 'libcells.json')))
        _missing[li] = [n for n in pinned[LIBS[li]] if n not in lib_of(li).cells]
    return _missing[li]


def execute(case):
    from kyupy import bench
    res = core.Result()
    tlib = lib_of(case['lib'])
    if missing_cells(case['lib']):
        # the catalogue walk enumerates the library itself, so a cell that silently dropped out of a library would go unnoticed
        res.violate('library-cell-missing', f'library {LIBS[case["lib"]]} no longer offers {missing_cells(case["lib"])[:6]} ({len(missing_cells(case["lib"]))} names of the pinned tree): instances of these cells cannot be resolved')
        return res
    if case.get('net'):
        # a shipped netlist (b15, ~43 000 nodes, SAED32 instances) as the starting point of the history
        import kyupy.verilog
        with contextlib.redirect_stdout(io.StringIO()):
            c = kyupy.verilog.load(f"/repo/tests/{case['net']}", branchforks=bool(case.get('branchforks')), tlib=tlib)
        res.probe('shipped_netlist')
    else:
        c = build(case, res)
    # the library's implementation circuits are shared objects: every later instance is resolved from them, so a
    # transformation must leave them as they are (compared at the end of the history)
    used_cells = sorted({it[1] for it in case['items'] if it[0] == 'lib'})
    impl_before = {name: graphsim.real_signature(tlib.cells[name][0]) for name in used_cells}
    uid = 0
    prev_kind = None
    last_impl = None
    interesting = bool(res.probes.get('unconnected_input_pin') or res.probes.get('unconnected_output_pin') or res.probes.get('sequential_cell') or res.probes.get('multi_output_cell'))
    for k, st in enumerate(case['steps']):
        kind = st[0]
        overrides = {}
        did = kind
        target = impl = None
        if kind == 'subst':
            expanded = set()      # names that some other name extends with '~...': an instance name is expanded only once (name clash otherwise)
            for x in c.nodes:
                nm = str(x.name)
                for pos in range(len(nm)):
                    if nm[pos] == '~': expanded.add(nm[:pos])
            io_ids = {id(x) for x in c.io_nodes}
            cand = [n for n in c.nodes if n.kind != '__fork__' and n.kind not in tlib.cells and not refmodels.is_state(n) and n.kind.lower() not in ('input', 'output')
                    and refmodels.prim_of(n.kind) is not None and id(n) not in io_ids and str(n.name) not in expanded]
            if not cand: continue
            target = cand[st[1] % len(cand)]
            uid += 1
            n_in = len(target.ins) + (st[2] % 2)
            n_out = max(1, len(target.outs)) + (st[1] // 7) % 3      # extra implementation outputs stay unconnected (their logic is swept)
            from .c09 import impl_text
            text, _nu = impl_text(st[2], n_in, n_out, f'{k}u{uid}')
            with contextlib.redirect_stdout(io.StringIO()):
                impl = bench.parse(text)
                impl.eliminate_1to1_forks()
            ha = HALF_ADDER[case['lib']]
            if st[2] % 4 == 0 and n_in >= 2:
                impl, text = impl_nested(ha, n_in, n_out, f'{k}u{uid}')
                res.probe('nested_multi_output_impl')
            elif st[2] % 4 == 1 and last_impl is not None:
                # the SAME implementation object as in an earlier substitute step, edited in between (two ports swapped)
                li_in, li_out = cell_pins(last_impl)
                if li_in >= len(target.ins) and li_out >= max(1, len(target.outs)):
                    impl = last_impl
                    ports_in = [j for j, x in enumerate(impl.io_nodes) if len(x.ins) == 0]
                    ports_out = [j for j, x in enumerate(impl.io_nodes) if len(x.ins) > 0]
                    grp = ports_in if (len(ports_in) >= 2 and st[1] % 2 == 0) or len(ports_out) < 2 else ports_out
                    if len(grp) >= 2:
                        a_, b_ = grp[0], grp[-1]
                        impl.io_nodes[a_], impl.io_nodes[b_] = impl.io_nodes[b_], impl.io_nodes[a_]
                    text = 'the implementation object of an earlier step, two ports swapped'
                    res.probe('implementation_reused_after_edit')
            if (st[1] // 3) % 4 == 0 and len(target.outs) == 1 and target.outs[0] is not None:
                # the instance uses a LATER output pin of the implementation and leaves the earlier ones open (as Q open / QN used, or an earlier port computed from a later one)
                n_impl_out = cell_pins(impl)[1]
                if n_impl_out > 1:
                    from kyupy.circuit import Line
                    pin = 1 + (st[1] // 11) % (n_impl_out - 1)
                    l0 = target.outs[0]
                    rd = (l0.reader, l0.reader_pin)
                    l0.remove()
                    Line(c, (target, pin), rd)
                    res.probe('earlier_output_pin_left_open')
            last_impl = impl
            overrides = {target.name: impl}
            did = f'substitute({target.name}:{target.kind}, {text[:70]})'
        names0 = [n.name for n in c.s_nodes]
        ref_names0, tab0 = table(c, [tlib], overrides)
        if names0 != ref_names0:
            res.violate('s-nodes-order', f'before step {k}: s_nodes {names0[:8]} differs from ports + flip-flops + latches in node order {ref_names0[:8]}'); return res
        kinds0 = {n.name: n.kind for n in c.nodes if n.kind != '__fork__'}
        # ---- the step
        if kind == 'copy':
            c = c.copy(); res.fault('F-restore'); res.probe('restore_step')
        elif kind == 'pickle':
            c = graphsim.restore(c, ['pickle', 'pickle0', 'deepcopy'][st[1] % 3], res); res.fault('F-restore'); res.probe('restore_step')
        elif kind == 'elim':
            c.eliminate_1to1_forks(); res.probe('elim_step')
        elif kind == 'resolve':
            c.resolve_tlib_cells(tlib); res.probe('resolve_step')
            if interesting: res.nontrivial = True
        elif kind == 'buf':
            # manual edit through the public API: a line is cut and a buffer inserted (function unchanged, indices move)
            from kyupy.circuit import Node, Line
            if len(c.lines) > 0:
                l = c.lines[st[1] % len(c.lines)]
                d, dp, r, rp = l.driver, l.driver_pin, l.reader, l.reader_pin
                uid += 1
                bn = Node(c, f'mbuf{k}u{uid}', 'buf')
                if d.kind == '__fork__':
                    l.remove()      # fork outputs are squeezed: the new branch goes to the end
                    Line(c, d, (bn, 0))
                else:
                    l.remove()
                    Line(c, (d, dp), (bn, 0))
                Line(c, (bn, 0), (r, rp))
                res.probe('manual_buffer_inserted')
        elif kind == 'subst':
            c.substitute(target, impl); res.probe('substitute_step')
            if interesting: res.nontrivial = True
        if kind in ('copy', 'pickle') and prev_kind not in (None, 'copy', 'pickle') and k + 1 < len(case['steps']): res.nontrivial = True
        prev_kind = kind
        res.count('transformation_steps')
        res.log.add(k, kind, len(c.nodes), len(c.lines))
        # ---- invariants
        names1 = [n.name for n in c.s_nodes]
        if names1 != names0:
            added = [x for x in names1 if x not in names0]
            removed = [x for x in names0 if x not in names1]
            n_io0 = len(c.io_nodes)
            rest1 = [x for x in names1 if x not in added]      # the list without the added names
            info = {'names_added_kinds': [kinds0.get(x, '?') for x in added], 'names_removed': removed,
                    'order_kept': [x for x in names1 if x in names0] == [x for x in names0 if x in names1],
                    'step_kind': kind, 'ports_same': names0[:n_io0] == names1[:n_io0],
                    'state_elements_permuted': names0[:n_io0] == rest1[:n_io0] and sorted(names0[n_io0:]) == sorted(rest1[n_io0:]) and names0[n_io0:] != rest1[n_io0:]}
            key = classify_names_change(info)
            vkind = 's-nodes-changed' if key is None else 's-nodes-changed:' + key
            res.notes.setdefault('snc', {})[vkind] = info
            if not any(v['kind'] == vkind for v in res.violations):
                res.violate(vkind, f'step {k} ({did}): ports/state elements before {names0[:10]} after {names1[:10]} (added {added[:4]}, removed {removed[:4]})')
            if key is None: return res
            # the change matches a recorded known finding: the history goes on (so that it cannot mask what later steps do),
            # judged against the list as it is now
            if removed: return res
            if added or len(names0) <= 10: continue      # (positional table columns: not comparable across differently ordered lists)
            res.probe('function_compared_by_name_after_known_reordering')
        if not graphsim.check_invariants(c, res, k, did): return res     # a structurally corrupt graph has no function
        if kind == 'resolve':
            left = [f'{n.name}:{n.kind}' for n in c.nodes if n.kind in tlib.cells]
            if left:
                res.violate('unresolved-cell-after-resolve', f'step {k} (resolve): library cell instance(s) {left[:4]} are still in the circuit after resolve_tlib_cells')
                return res
        try:
            _n1, tab1 = table(c, [tlib], {})
        except (ValueError, KeyError, AttributeError, IndexError, TypeError) as ex:
            res.violate('function-undefined-after-step', f'step {k} ({did}): the transformed circuit cannot be evaluated by the reference evaluator: {type(ex).__name__}: {ex}')
            return res
        for name in names0:
            if tab0[name] != tab1[name]:
                diff = tab0[name] ^ tab1[name]
                row = (diff & -diff).bit_length() - 1
                res.violate('function-changed', f'step {k} ({did}): value at the data pin of "{name}" differs in table row {row} (before {(tab0[name] >> row) & 1}, after {(tab1[name] >> row) & 1}; variables {names0})')
                return res
        # the function as a user observes it: the library's own simulator on the transformed circuit (its traversal, its
        # compile step, the circuit's indices and lookups as the transformation left them) against the reference table
        if k == len(case['steps']) - 1 or kind == 'resolve':
            tabs = simulated_table(c, tlib, res)
            if tabs is not None:
                for name, v in tabs.items():
                    if v != tab1[name]:
                        diff = v ^ tab1[name]
                        row = (diff & -diff).bit_length() - 1
                        res.violate('function-differs-in-library-simulation', f'step {k} ({did}): LogicSim on the transformed circuit gives {(v >> row) & 1} at the data pin of "{name}" in table row {row}, the graph evaluates to {(tab1[name] >> row) & 1} (variables {names1})')
                        return res
    for name in used_cells:
        if graphsim.real_signature(tlib.cells[name][0]) != impl_before[name]:
            res.violate('library-implementation-mutated', f'the implementation circuit of library cell {name} was modified by the transformations (later instances of the cell are resolved from it)')
            return res
    return res


def classify_names_change(info):
    """Key of the known finding a change of the port/state-element list matches, else None."""
    added = info['names_added_kinds']
    hidden = bool(added) and not info['names_removed'] and all(any(k.startswith(h) for h in HIDDEN_LATCH) for k in added)
    permuted = bool(info['state_elements_permuted']) and info['step_kind'] in ('elim', 'resolve', 'subst')
    if hidden and (info['order_kept'] or permuted):
        return 'F9i-latch-cell-without-latch-in-its-name'       # (possibly together with F14 in the same step)
    if not added and not info['names_removed'] and info['ports_same'] and permuted:
        return 'F14-node-removal-permutes-state-element-order'
    return None


def finding_key(case, res, kind):
    if kind.startswith('s-nodes-changed:'):
        return kind.split(':', 1)[1]
    return None


def shrinks(case):
    st = case['steps']
    if len(st) > 1:
        for j in range(len(st)): yield dict(case, steps=st[:j] + st[j + 1:])
    it = case['items']
    if len(it) > 1:
        for j in range(len(it) - 1, -1, -1): yield dict(case, items=it[:j] + it[j + 1:])
    if len(case['outs']) > 1: yield dict(case, outs=case['outs'][:1])
    if case.get('out_all_unread'): yield dict(case, out_all_unread=False)
    if case['n_in'] > 1: yield dict(case, n_in=case['n_in'] - 1)
    if case['fmode'] != [0]: yield dict(case, fmode=[0])
    if case.get('spare'): yield dict(case, spare=0)
    if case.get('node_order'): yield dict(case, node_order=0)
    if case.get('ports_first'): yield dict(case, ports_first=False)
    if case.get('bench_ports'): yield dict(case, bench_ports=False)
    for j, x in enumerate(it):
        if x[0] == 'lib' and x[3] != 0xff: yield dict(case, items=it[:j] + [[x[0], x[1], x[2], 0xff, x[4]]] + it[j + 1:])
