"""C07 - the published level partition is a valid parallel schedule.

Every case is executed under the canonical CPU order (reference) and under several other schedules: CPU with the
rows of `ops` permuted inside every level, the mock GPU under SimCuda in order mode (thread permutations), the
repository's own nested-loop launcher, and (a minority) fine-grained interleaving with real threads.
Oracles: M1 (no intra-launch conflict), M2 (every operand produced earlier / interface input), M3, and
bit-identical s[3:8], s[10], abuf and c (outside the scratch slots) against the reference."""
import numpy as np

from .. import core, wavegen, wsim, lsim
from .. import gen as cgen
from ..simcuda import unwrap

PROP = 'C07'
TIERS = {
    'quick': {'runs': 2800, 'chunk': 10, 'wall_cap': 75, 'min_budget': 30},
    'thorough': {'runs': 120000, 'chunk': 25, 'wall_cap': 850, 'min_budget': 60},
}
RULE = ('case = seeded construction script (verilog-style io cells / bench-style io forks, fan-out forks, fork chains, fork trees, reconvergence, '
        'flip-flops with Q/QN, latches, constants, gates without output line, undriven signals) + delays + per-line capacities + 1-3 reuse batches + '
        'optional accumulation table + one of the four c_reuse x strip_forks settings + 3-5 schedules (CPU row permutation inside levels, mock-GPU '
        'thread orders under SimCuda, the repository launcher, real-thread interleaving) + a LogicSim (m=2/4/8) run with permuted rows; '
        'a case is non-trivial iff some level holds >= 2 operations (so that some launch has >= 2 racing threads with different operations) and at least one executed schedule is '
        'not the canonical order; distinct = distinct case digests')
REAL_VS_STUB = {'real': ['kyupy.sim.SimOps (translation, levelisation, ref-counts, memory map)', 'kyupy.sim.Heap', 'kyupy.wave_sim kernel bodies _wave_eval, wave_eval_gpu, wave_assign_gpu, wave_capture_gpu, level_eval_cpu, wave_capture_cpu',
                         'WaveSim / WaveSimCuda host code', 'kyupy.logic_sim.LogicSim.c_prop', 'kyupy.MockCuda launcher (as the canonical schedule)', 'kyupy.circuit'],
                'stub': ['GPU runtime: kyupy.wave_sim.cuda replaced by the seeded scheduler SimCuda (grid enumeration, thread order, atomic.add, synchronize)',
                         'device memory: real numpy arrays behind access-logging proxies']}
ASSUMPTIONS = ['a kernel launch boundary is the only barrier; inside a launch nothing is ordered',
               'stimuli are exact 0.0/1.0 values; delays are non-negative dyadic numbers <= 64 so that all time arithmetic is exact in float32',
               'generators keep every gate input pin up to the last one connected (a node with an unconnected pin inside len(ins) is never scheduled by topological_order; that is C17 territory)']
EXPECTED_PROBES = ['level_with_2plus_ops', 'launch_with_2plus_threads', 'interleave_run', 'dangling_op', 'stripped_chain', 'chunk_recycled']


def gen_case(rng, tier, i):
    big = tier == 'thorough' and rng.random() < 0.3
    script = cgen.gen_script(rng, max_gates=40 if big else rng.choice([6, 12, 24]), max_in=6, max_ff=3,
                            p_glitchy=rng.choice([0.1, 0.3]))
    if rng.random() < 0.03: script = {'net': 'b01'}      # shipped netlist (92 nodes, 5 flip-flops, wide levels)
    sims = rng.randint(1, 6)
    case = {
        'script': script,
        'sims': sims,
        'delays': wavegen.gen_delays(rng, n_sets=rng.choice([1, 1, 1, 2])),
        'caps': wavegen.gen_caps(rng, p_fault=0.4),
        'argforms': wavegen.gen_argforms(rng), 'batches': wavegen.gen_batches(rng, n_max=3, sims=sims, p_reprop=0.1),
        'actrl': wavegen.gen_actrl(rng),
        'knobs': {'c_reuse': rng.random() < 0.5, 'strip_forks': rng.random() < 0.5},
    }
    cfgs = [{'cls': 'cpu', 'rowperm': {'kind': rng.choice(['random', 'random', 'reversed']), 'seed': rng.randrange(1 << 20)}}]
    for _ in range(rng.randint(1, 2)):
        cfgs.append({'cls': 'gpu', 'sched': wavegen.gen_order_sched(rng), 'block': wavegen.gen_block(rng)})
    if rng.random() < 0.5:
        cfgs.append({'cls': 'gpu', 'sched': wavegen.gen_order_sched(rng), 'block': wavegen.gen_block(rng),
                     'rowperm': {'kind': 'random', 'seed': rng.randrange(1 << 20)}})
    if rng.random() < 0.5:
        cfgs.append({'cls': 'gpu', 'sched': {'mode': 'repo'}, 'block': wavegen.gen_block(rng)})
    if rng.random() < 0.15 and sims <= 3 and len(script.get('gates', [0] * 99)) <= 14:
        cfgs.append({'cls': 'gpu', 'sched': wavegen.gen_interleave_sched(rng), 'block': wavegen.gen_block(rng, small=True)})
    case['cfgs'] = cfgs
    case['logic'] = {'m': rng.choice([2, 4, 8]), 'sims': rng.choice([1, 5, 8, 9, 13, 16, 33]), 'vals': [rng.randrange(8) for _ in range(rng.randint(3, 23))],
                     'rowperm': {'kind': rng.choice(['random', 'reversed']), 'seed': rng.randrange(1 << 20)}}
    return case


def gen(rng, tier, i):
    return gen_case(rng, tier, i)


def bits(a):
    a = np.ascontiguousarray(a)
    return a.view(np.uint32) if a.dtype == np.float32 else a


def compare(res, label, meta, ref, out, bno):
    if not np.array_equal(bits(ref['s'][3:8]), bits(out['s'][3:8])):
        d = np.argwhere(bits(ref['s'][3:8]) != bits(out['s'][3:8]))[0]
        res.violate('schedule-dependent-result', f'{label} batch {bno}: s[{3 + d[0]},{d[1]},{d[2]}] = {out["s"][3 + d[0], d[1], d[2]]} vs canonical {ref["s"][3 + d[0], d[1], d[2]]}')
        return False
    if not np.array_equal(ref['s'][10], out['s'][10]):
        res.violate('schedule-dependent-result', f'{label} batch {bno}: overflow indicators s[10] differ from the canonical order')
        return False
    if not np.array_equal(ref['abuf'], out['abuf']):
        res.violate('schedule-dependent-abuf', f'{label} batch {bno}: abuf {out["abuf"].tolist()} vs canonical {ref["abuf"].tolist()}')
        return False
    keep = np.ones(meta.c_len, dtype=bool)
    for x in (meta.tmp_idx, meta.tmp2_idx):
        a, b = meta.range_of(x)
        keep[a:b] = False
    rc, oc = bits(ref['c'])[keep], bits(out['c'])[keep]
    if not np.array_equal(rc, oc):
        rows = np.flatnonzero(keep)
        d = np.argwhere(rc != oc)[0]
        res.violate('schedule-dependent-memory', f'{label} batch {bno}: c[{rows[d[0]]},{d[1]}] = {out["c"][rows[d[0]], d[1]]} vs canonical {ref["c"][rows[d[0]], d[1]]}')
        return False
    return True


def execute(case):
    res = core.Result()
    built = cgen.build(case['script'])
    knobs = case['knobs']
    h0, ref = wsim.run_config(built, case, dict(knobs, cls='cpu'), res)
    meta = h0.meta
    if meta.dup_producers: res.violate('line-produced-twice', f'lines {meta.dup_producers[:5]} are the output of more than one operation')
    widths = [b - a for a, b in zip(meta.level_starts, meta.level_stops)]
    if any(w >= 2 for w in widths): res.probe('level_with_2plus_ops')
    if any(int(op[1]) == meta.tmp_idx for op in meta.ops): res.probe('dangling_op')
    if knobs['strip_forks'] and any(meta.root(l) not in (None, l) and meta.circuit.lines[meta.root(l)].reader.kind == '__fork__' and meta.circuit.lines[l].driver is not meta.circuit.lines[meta.root(l)].reader for l in range(meta.n_lines)):
        res.probe('stripped_chain')
    if knobs['c_reuse']:
        starts = [int(meta.c_locs[l]) for l in range(meta.n_lines) if meta.root(l) == l]
        if len(starts) != len(set(starts)): res.probe('chunk_recycled')
    res.log.add('ref', [wsim.crc(o['s']) for o in ref], [wsim.crc(o['c']) for o in ref])
    if res.violations: return res
    noncanon = False
    for ci, cfg in enumerate(case['cfgs']):
        label = f"cfg{ci}:{cfg['cls']}:{(cfg.get('sched') or {}).get('mode', 'rowperm')}:{(cfg.get('sched') or {}).get('kind', '')}"
        h, outs = wsim.run_config(built, case, dict(cfg, **knobs), res)
        if (cfg.get('sched') or {}).get('mode') == 'interleave':
            res.probe('interleave_run'); res.fault('F-int')
        if cfg.get('rowperm') or (cfg.get('sched') or {}).get('kind', 'canonical') != 'canonical': noncanon = True; res.fault('F-ord')
        if 'block' in cfg: res.fault('F-grid')
        for bno, (r, o) in enumerate(zip(ref, outs)):
            if not compare(res, label, h.meta if not cfg.get('rowperm') else meta, r, o, bno): break
        res.log.add(label, [wsim.crc(o['s']) for o in outs])
        if res.violations: return res
    # LogicSim: rows permuted inside every level
    lsim.check_rowperm(built, case['logic'], knobs, res)
    res.nontrivial = noncanon and any(w >= 2 for w in widths)
    return res


def shrinks(case):
    if len(case['cfgs']) > 1:
        for j in range(len(case['cfgs'])): yield dict(case, cfgs=case['cfgs'][:j] + case['cfgs'][j + 1:])
    yield from wavegen.shrink_wave_case(case)
    for j, cfg in enumerate(case['cfgs']):
        def rep(nc): return dict(case, cfgs=case['cfgs'][:j] + [nc] + case['cfgs'][j + 1:])
        s = cfg.get('sched') or {}
        if s.get('mode') == 'interleave': yield rep(dict(cfg, sched={'mode': 'order', 'kind': 'random', 'perm_seed': 1}))
        if s.get('mode') == 'order' and s.get('kind') != 'reversed': yield rep(dict(cfg, sched={'mode': 'order', 'kind': 'reversed'}))
        if s.get('mode') == 'order' and s.get('kind') not in ('canonical',): yield rep(dict(cfg, sched={'mode': 'order', 'kind': 'canonical', 'swaps': [[2, 0, 1]]}))
        if cfg.get('block') and cfg['block'] != [1, 1]: yield rep(dict(cfg, block=[1, 1]))
    for key in ('c_reuse', 'strip_forks'):
        if case['knobs'][key]: yield dict(case, knobs=dict(case['knobs'], **{key: False}))


def sample(case):
    c = dict(case)
    c['cfgs'] = [dict(cfg, sched=dict(cfg['sched'], choices=cfg['sched']['choices'][:40])) if (cfg.get('sched') or {}).get('choices') else cfg for cfg in case['cfgs']]
    return c
