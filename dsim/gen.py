"""Seeded construction scripts for circuits and their builder.

A script is plain JSON and stays valid when entries are dropped (minimisation): every reference to a signal is
an integer taken modulo the number of signals that exist at that point.

Signals are numbered: inputs 0..n_in-1, then two per state element (Q, second output), then one per gate.
"""
from kyupy.circuit import Circuit, Node, Line

N_ARY = ['and', 'nand', 'or', 'nor', 'xor', 'xnor']
FIXED = {'not': 1, 'inv': 1, 'buf': 1, 'nbuf': 1, 'ibuf': 1, 'delln': 1,
         'ao21': 3, 'aoi21': 3, 'oa21': 3, 'oai21': 3, 'mux21': 3,
         'ao22': 4, 'aoi22': 4, 'oa22': 4, 'oai22': 4,
         'ao211': 4, 'aoi211': 4, 'oa211': 4, 'oai211': 4,
         'isolor': 2, '__const0__': 0, '__const1__': 0, 'tieh': 0, 'tiel': 0}
GLITCHY = ['xor', 'xnor', 'mux21', 'xor', 'xnor']


def spell(rng, kind, n):
    r = rng.random()
    if kind.startswith('__'): return kind
    if r < 0.5: return kind
    if r < 0.75: return kind.upper()
    if kind in N_ARY: return kind.upper() + str(n) + rng.choice(['', 'X1', '_X2'])
    return kind.upper() + rng.choice(['X1', '_X1', ''])


def gen_script(rng, max_gates=24, max_in=6, max_ff=3, p_glitchy=0.2, style=None, want_dangling=None, allow_const=True, allow_floating=True, p_long_chain=0.0):
    style = style or rng.choice(['v', 'v', 'b'])
    n_in = rng.randint(1, max_in)
    n_ff = rng.choice([0, 0, 0, 1, 2, max_ff]) if max_ff > 0 else 0
    n_g = rng.randint(1, max_gates) if rng.random() > 0.02 else 0      # rarely: no gate at all (ports wired together)
    if n_g == 0: style = 'v'     # (bench-style ports are the signals themselves: without a gate there would be no line at all)
    n_fl = rng.choice([0, 0, 0, 0, 1, 2]) if allow_floating else 0
    ffs = []
    for _ in range(n_ff):
        ffs.append([rng.choice(['dff', 'DFF', 'DFFX1', 'dff', 'latch', 'LATCH', 'SDFFX1', 'sdffr', 'AODFFARX1_RVT', 'DLATCH', 'tlatch']), rng.randrange(1 << 16), rng.random() < 0.3])
        if ffs[-1][2] and rng.random() < 0.15: ffs[-1][1] = None      # data pin open, clock pin connected
    gates = []
    n_sig = n_in + n_fl + 2 * n_ff
    unread = list(range(n_in)) + list(range(n_in + n_fl, n_sig))
    recent_bias = rng.choice([0.3, 0.6, 0.9])
    shape = rng.random()
    chain = shape < 0.01                 # a deep chain: every gate reads the previous one (many levels)
    wide = 0.01 <= shape < 0.02          # one very wide level: every gate reads only inputs (fan-out and level width >> 32)
    if chain or wide: n_g = rng.choice([50, 80])
    layered = rng.random() < 0.35        # wide levels: gates of a layer read only signals of earlier layers
    layer_end = n_sig                    # signals [0, layer_end) belong to earlier layers
    layer_left = rng.randint(2, 7)
    for j in range(n_g):
        r = rng.random()
        if r < p_glitchy: kind = rng.choice(GLITCHY)
        elif r < 0.55: kind = rng.choice(N_ARY)
        else: kind = rng.choice([k for k in FIXED if allow_const or FIXED[k] > 0])
        n = FIXED[kind] if kind in FIXED else rng.randint(2, 4)
        if rng.random() < 0.06 and n >= 2: n -= rng.randint(1, n - 1)      # trailing pins not connected at all (they read 0)
        srcs = []
        for _ in range(n):
            if chain:
                s = n_sig - 1 if rng.random() < 0.8 else rng.randrange(n_sig)
            elif wide:
                s = rng.randrange(n_in)
            elif layered:
                cand = [u for u in unread if u < layer_end]
                s = rng.choice(cand) if cand and rng.random() < 0.6 else rng.randrange(layer_end)
            elif unread and rng.random() < 0.5:
                s = unread.pop(rng.randrange(len(unread)))
            elif rng.random() < recent_bias:
                s = max(0, n_sig - 1 - rng.randrange(min(n_sig, 6)))
            else:
                s = rng.randrange(n_sig)
            if s in unread: unread.remove(s)
            srcs.append(s)
        if len(srcs) >= 2 and rng.random() < 0.04:
            srcs[rng.randrange(len(srcs) - 1)] = None      # a pin left open BEFORE a connected one (reads 0, like a trailing one)
        gates.append([spell(rng, kind, n), srcs, rng.choice([0, 0, 2, 2, 1])])
        unread.append(n_sig)
        n_sig += 1
        if layered:
            layer_left -= 1
            if layer_left <= 0:
                layer_end = n_sig
                layer_left = rng.randint(2, 7)
    # outputs: prefer unread signals so that little is left dangling, unless dangling gates are wanted
    if want_dangling is None: want_dangling = rng.random() < 0.35
    outs = []
    cand = [s for s in unread if s >= n_in + n_fl]
    rng.shuffle(cand)
    keep_dangling = rng.randint(1, 3) if want_dangling else 0
    for s in cand[keep_dangling:]: outs.append(s)
    for _ in range(rng.randint(0, 2)): outs.append(rng.randrange(n_sig))
    if not outs: outs.append(max(0, n_sig - 1))
    rng.shuffle(outs)
    fmode = [rng.choice([0, 0, 1, 1, 2, 3, 4]) for _ in range(rng.randint(1, 8))]
    long_chain = rng.randrange(1 << 16) if rng.random() < p_long_chain else None      # ONE net routed through 1200 forks in series (deeper than the default recursion limit)
    return {'long_chain': long_chain, 'style': style, 'n_in': n_in, 'floating': n_fl, 'ffs': ffs, 'gates': gates, 'outs': outs, 'fmode': fmode,
            'io_mix': rng.random() < 0.3, 'fork_rev': rng.random() < 0.25, 'node_shuffle': rng.randrange(1, 1 << 16) if rng.random() < 0.25 else 0}


class Built:
    """A built circuit plus the harness's own bookkeeping."""
    def __init__(self):
        self.circuit = None
        self.sig_producer = []   # per signal: (node, out_pin)
        self.sig_names = []


_NETS = {}


def build(script):
    """Construct the kyupy Circuit through the public API (Node/Line with explicit pins)."""
    if script.get('net'):       # a shipped netlist
        import contextlib, io
        from kyupy import bench
        if script['net'] not in _NETS:
            _NETS[script['net']] = open(f"/repo/tests/{script['net']}.bench").read()
        b = Built()
        with contextlib.redirect_stdout(io.StringIO()):
            b.circuit = bench.parse(_NETS[script['net']], name=script['net'])     # a fresh object each time (callers may edit it)
        return b
    c = Circuit('t')
    b = Built()
    b.circuit = c
    style = script['style']
    n_in = max(1, script['n_in'])
    prod = []     # per signal (node, pin)
    names = []
    in_nodes = []
    for k in range(n_in):
        n = Node(c, f'i{k}', 'input') if style == 'v' else Node(c, f'i{k}')
        in_nodes.append(n)
        prod.append((n, 0)); names.append(f'i{k}')
    n_fl = int(script.get('floating', 0))
    for k in range(n_fl):
        prod.append((None, None)); names.append(f'u{k}')   # undriven signal: a fork without driver
    ff_nodes = []
    for j, (kind, dsrc, has_clk) in enumerate(script['ffs']):
        n = Node(c, f'ff{j}', kind)
        ff_nodes.append(n)
        prod.append((n, 0)); names.append(f'ff{j}')
        prod.append((n, 1)); names.append(f'ff{j}~qn')
    n_base = len(prod)
    readers = [[] for _ in range(n_base + len(script['gates']))]
    gate_nodes = []
    for j, (kind, srcs, out_mode) in enumerate(script['gates']):
        n = Node(c, f'g{j}', kind)
        gate_nodes.append(n)
        avail = n_base + j
        for pin, s in enumerate(srcs):
            if s is not None: readers[s % avail].append((n, pin))
        prod.append((n, 0)); names.append(f'g{j}')
    n_sig = len(prod)
    for j, (kind, dsrc, has_clk) in enumerate(script['ffs']):
        if dsrc is not None: readers[dsrc % n_sig].append((ff_nodes[j], 0))
    if script['ffs'] and any(f[2] for f in script['ffs']):
        for j, (kind, dsrc, has_clk) in enumerate(script['ffs']):
            if has_clk: readers[0].append((ff_nodes[j], 1))  # clock pin from input 0 (ignored by simulators)
    out_nodes = []
    out_sigs = []
    seen = set()
    for s in script['outs']:
        s = s % n_sig
        if style == 'b':
            if s < n_in + n_fl or s in seen: continue
            seen.add(s)
        out_sigs.append(s)
    if style == 'v':
        for k, s in enumerate(out_sigs):
            n = Node(c, f'o{k}', 'output')
            out_nodes.append(n)
            readers[s].append((n, 0))
    fmode = script['fmode'] or [0]
    # ---- wire every signal
    sig_fork = {}
    for s in range(n_sig):
        pn, ppin = prod[s]
        rd = readers[s]
        mode = fmode[s % len(fmode)]
        if script.get('long_chain') is not None and s == script['long_chain'] % n_sig: mode = 1200
        is_gate = s >= n_base
        if pn is None:     # undriven signal
            if rd: _fan(c, Node(c, names[s]), rd, mode, names[s])
            continue
        if style == 'b':
            # bench: inputs are forks themselves; every cell output goes through a fork named like the signal
            if s < n_in:
                fork = pn
            else:
                if not rd and s not in seen:
                    om = script['gates'][s - n_base][2] if is_gate else 2
                    if om == 2: continue     # no line at all
                fork = Node(c, names[s])
                Line(c, (pn, ppin), (fork, 0))
            sig_fork[s] = fork
            _fan(c, fork, rd, mode, names[s])
            continue
        if not rd:
            if is_gate and script['gates'][s - n_base][2] != 2:
                fork = Node(c, names[s])          # verilog-like: driven signal fork without readers
                Line(c, (pn, ppin), (fork, 0))
            continue
        if len(rd) == 1 and mode == 0:
            Line(c, (pn, ppin), rd[0])
            continue
        pre = _prefork(c, rd, mode, names[s]) if script.get('fork_rev') else None     # downstream forks created before their upstream fork
        fork = Node(c, names[s])
        Line(c, (pn, ppin), (fork, 0))
        _fan(c, fork, rd, mode, names[s], pre)
    # ---- io list
    if style == 'v':
        ios = in_nodes + out_nodes
        if script.get('io_mix'):
            ios = [x for pair in zip(in_nodes, out_nodes) for x in pair] + in_nodes[len(out_nodes):] + out_nodes[len(in_nodes):]
    else:
        ios = in_nodes + [sig_fork[s] for s in out_sigs]
    for n in ios: c.io_nodes.append(n)
    if script.get('node_shuffle'): b.circuit = reorder(c, script['node_shuffle'])
    b.sig_producer = prod
    b.sig_names = names
    return b


def reorder(c, seed, ports_first=False):
    """The same circuit with its nodes created in another order (a parser is free to create nodes in any order):
    node indices, the insertion order of the cell/fork tables and tie-breaks of traversals change, nothing else."""
    import random
    nodes = list(c.nodes)
    random.Random(seed).shuffle(nodes)
    if ports_first:
        io = {id(n) for n in c.io_nodes}
        nodes = [n for n in nodes if id(n) in io] + [n for n in nodes if id(n) not in io]
    c2 = Circuit(c.name)
    new = {}
    for n in nodes: new[id(n)] = Node(c2, n.name, n.kind)
    lines = list(c.lines)
    if seed % 2: random.Random(seed + 1).shuffle(lines)      # lines, too, may be created in any order (other line indices)
    for l in lines:
        Line(c2, (new[id(l.driver)], l.driver_pin), (new[id(l.reader)], l.reader_pin))
    for n in c.io_nodes: c2.io_nodes.append(new[id(n)])
    return c2


def _prefork(c, rd, mode, name):
    if mode == 4 or mode >= 100: return [Node(c, f'{name}~c{k}') for k in range(3 if mode == 4 else mode)]
    if mode == 2: return [Node(c, f'{name}~b{k}') for k in range(len(rd))]
    if mode == 3 and len(rd) >= 2: return [Node(c, f'{name}~{part}') for part in ('l', 'r')]
    return None


def _fan(c, fork, rd, mode, name, pre=None):
    if not rd: return
    if mode == 2:      # a branch fork per reader (as verilog.parse(branchforks=True))
        for k, r in enumerate(rd):
            bf = pre[k] if pre else Node(c, f'{name}~b{k}')
            Line(c, fork, (bf, 0))
            Line(c, bf, r)
    elif mode == 4 or mode >= 100:      # a chain of three (or, rarely, more than a thousand) more forks below the signal's fork; readers hang off every stage
        stages = pre if pre else [Node(c, f'{name}~c{k}') for k in range(3 if mode == 4 else mode)]
        up = fork
        for sf in stages:
            Line(c, up, (sf, 0))
            up = sf
        allf = [fork] + list(stages)
        for k, r in enumerate(rd):
            Line(c, allf[(len(allf) - 1 - k) % len(allf)], r)      # the first reader at the deepest stage
    elif mode == 3 and len(rd) >= 2:   # fork tree
        h = len(rd) // 2
        for j, (part, grp) in enumerate((('l', rd[:h]), ('r', rd[h:]))):
            sf = pre[j] if pre else Node(c, f'{name}~{part}')
            Line(c, fork, (sf, 0))
            for r in grp: Line(c, sf, r)
    else:
        for r in rd: Line(c, fork, r)


def shrink_script(script):
    """Candidates for a smaller construction script."""
    if script.get('net'): return
    g = script['gates']
    n = len(g)
    k = max(1, n // 2)
    while k >= 1:
        for a in range(n - k, -1, -k):
            if n - k >= 1: yield dict(script, gates=g[:a] + g[a + k:])
        if k == 1: break
        k //= 2
    if script['ffs']:
        for j in range(len(script['ffs'])):
            yield dict(script, ffs=script['ffs'][:j] + script['ffs'][j + 1:])
    if len(script['outs']) > 1:
        for j in range(len(script['outs'])):
            yield dict(script, outs=script['outs'][:j] + script['outs'][j + 1:])
    if script['n_in'] > 1: yield dict(script, n_in=script['n_in'] - 1)
    if script.get('floating'): yield dict(script, floating=script['floating'] - 1)
    if script.get('long_chain') is not None: yield dict(script, long_chain=None)
    if script['fmode'] != [0]: yield dict(script, fmode=[0])
    if script.get('io_mix'): yield dict(script, io_mix=False)
    if script.get('fork_rev'): yield dict(script, fork_rev=False)
    if script.get('node_shuffle'): yield dict(script, node_shuffle=0)
    for j, (kind, srcs, om) in enumerate(g):
        if om != 0: yield dict(script, gates=g[:j] + [[kind, srcs, 0]] + g[j + 1:])
        base = kind.lower()
        if base not in ('and', 'buf') and len(srcs) >= 1:
            nk = 'buf' if len(srcs) == 1 else ('and' if 2 <= len(srcs) <= 4 else None)
            if nk: yield dict(script, gates=g[:j] + [[nk, srcs, om]] + g[j + 1:])
