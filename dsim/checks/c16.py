"""C16 - the fault-injection callback sees and controls every evaluated signal.

The callback is the code's own injection seam; the harness's callback is both monitor and fault injector (F-inj).
History checks over the recorded callback events of every propagation (c_prop and cycle(k)):
  exactly once for every evaluated signal (every line whose driver is evaluated in this configuration), never for another;
  dependency order (every operand's event precedes its reader's); the first argument identifies the signal (a Line as
  documented, or anything whose __index__ is the line index); the second is a writable view: the values seen equal what the
  cut-circuit oracle predicts given the injections made so far, and a write through it is what downstream sees.
Refinement: per cycle and lane group, results equal the callback-free simulation (same simulator class) of the cut circuit
in which every injected line is replaced by a fresh primary input carrying the overwritten values.
Untouched callback: s[1] and c bit-identical to c_prop() without callback, all three logics.
"""
import operator

import numpy as np

from .. import core, lsim, refmodels
from .. import gen as cgen

PROP = 'C16'
TIERS = {
    'quick': {'runs': 30000, 'chunk': 50, 'wall_cap': 80, 'min_budget': 30},
    'thorough': {'runs': 250000, 'chunk': 50, 'wall_cap': 850, 'min_budget': 60},
}
RULE = ('case = seeded circuit (ports as cells or forks, flip-flops, latches, fork chains, gates without output line, undriven signals) + logic m in {2,4,8} + c_reuse x strip_forks + 1-20 lanes + '
        'stimulus + 1-4 cycles driven either by explicit s_to_c/c_prop(cb)/c_to_s/s_ppo_to_ppi or by cycle(k, cb) + fault plan of 0-3 injections per cycle (line, lane mask, per-lane values from the logic\'s alphabet, '
        'biased to lines with a fan-out cone and to one injection upstream of another); non-trivial iff at least one injection changed a captured result w.r.t. the un-injected run; distinct = distinct case digests')
REAL_VS_STUB = {'real': ['kyupy.logic_sim.LogicSim (s_to_c, c_prop incl. all three callback paths, c_to_s, s_ppo_to_ppi, cycle)', 'kyupy.logic bit-parallel operators', 'kyupy.sim.SimOps'],
                'stub': ['none: the oracle is the same simulator class run callback-free on the cut circuit (no second multi-valued algebra)']}
ASSUMPTIONS = ['lanes are independent (C06) - the oracle is evaluated per group of lanes that share the same set of injections',
               'an evaluated signal is a line whose driver is a port/state element, a gate, or a fork that is not stripped in this configuration']
EXPECTED_PROBES = ['more_than_4096_bytes_per_signal', 'callback_raised_mid_propagation', 'plain_repropagation_after_injection', 'injection_changed_result', 'injection_upstream_of_another', 'untouched_callback_run', 'cycle_api', 'multi_cycle', 'lanes_not_multiple_of_8']


def gen(rng, tier, i):
    script = cgen.gen_script(rng, max_gates=rng.choice([5, 10, 20, 30]), max_in=5, max_ff=3, p_glitchy=0.15)
    if rng.random() < 0.03: script = {'net': 'b01', 'ffs': [1]}
    m = rng.choice([2, 4, 8])
    sims = rng.choice([1, 2, 3, 5, 7, 8, 9, 12, 16, 17, 20, 33, 64, 257])
    cycles = rng.choice([1, 1, 2, 3, 4]) if script['ffs'] else rng.choice([1, 1, 2])
    sims_type = rng.choice(['int', 'int', 'int', 'int64', 'int32', 'narrow'])
    if sims_type == 'narrow':      # a lane count that arrives in the narrowest NumPy integer type that holds it, close to that type's limit
        sims_type, sims = rng.choice([('uint8', 250), ('uint8', 255), ('int8', 121), ('int8', 127), ('int16', 300), ('uint8', sims if sims < 256 else 9)])
    if rng.random() < 0.002 and len(script.get('gates', [])) <= 30:      # a pattern set of production size: more than 4096 bytes per signal (any internal blocking of the lane axis would show to the callback)
        sims, sims_type, cycles = rng.choice([32769, 32776, 40000]), 'int', min(cycles, 2)
    inj = []
    for cy in range(cycles):
        n = rng.choice([0, 1, 1, 2, 3])
        for _ in range(n):
            mask_kind = rng.choice(['all', 'all', 'half', 'one', 'rand'])
            inj.append({'cycle': cy, 'line': rng.randrange(1 << 16), 'mask': mask_kind, 'mask_seed': rng.randrange(1 << 16),
                        'vals': [rng.randrange(8) for _ in range(rng.randint(1, 5))]})
    return {'script': script, 'm': m, 'sims': sims, 'cycles': cycles, 'vals': [rng.randrange(8) for _ in range(rng.randint(3, 23))],
            'knobs': {'c_reuse': rng.random() < 0.4, 'strip_forks': rng.random() < 0.4}, 'api': rng.choice(['explicit', 'cycle', 'cycle']), 'inj': inj,
            'cb_style': rng.choice(['function', 'function', 'falsy_object', 'partial', 'method']), 'call_form': rng.choice(['keyword', 'positional']),
            'cb_return': rng.choice(['none', 'none', 'none', 'true', 'zero', 'line', 'array']), 'sims_type': sims_type,
            'raise_at': rng.choice([None, None, None, 0, 1, 3, 7])}


def evaluated_lines(circuit, strip):
    """Harness's own notion of the evaluated signals of a configuration."""
    sn = {id(n) for n in refmodels.s_nodes_of(circuit)}
    out = []
    for l in circuit.lines:
        d = l.driver
        if strip and d.kind == '__fork__' and id(d) not in sn and len(d.ins) > 0 and d.ins[0] is not None: continue
        out.append(l.index)
    return out


def lane_mask(kind, seed, sims):
    import random
    if kind == 'all': return [True] * sims
    if kind == 'half': return [l % 2 == (seed & 1) for l in range(sims)]
    if kind == 'one': return [l == seed % sims for l in range(sims)]
    r = random.Random(seed)
    return [r.random() < 0.5 for _ in range(sims)]


def set_lane(view, lane, val, mdim):
    byte, bit = lane >> 3, lane & 7
    for p in range(mdim):
        if (val >> p) & 1: view[p, byte] |= np.uint8(1 << bit)
        else: view[p, byte] &= np.uint8(0xff ^ (1 << bit))


def lanes_of(planes, sims):
    """(mdim, nbytes) planes -> per-lane integer code."""
    bits = np.unpackbits(np.asarray(planes, dtype=np.uint8), axis=-1, bitorder='little')[:, :sims].astype(np.int64)
    return sum(bits[p] << p for p in range(bits.shape[0]))


def cut_circuit(script, cut_lines):
    """Rebuild the circuit and replace every line in cut_lines by a fresh primary input feeding its reader."""
    from kyupy.circuit import Node, Line
    b = cgen.build(script)
    c = b.circuit
    orig = list(c.lines)
    n_io = len(c.io_nodes)
    new_inputs = {}
    for k, li in enumerate(cut_lines):
        l = orig[li]
        rd, rp = l.reader, l.reader_pin
        l.remove()
        n = Node(c, f'inj{k}', 'input')
        c.io_nodes.append(n)
        Line(c, (n, 0), (rd, rp))
        new_inputs[li] = n_io + k
    return c, orig, new_inputs


def execute(case):
    res = core.Result()
    built = cgen.build(case['script'])
    c = built.circuit
    m, sims, cycles = case['m'], case['sims'], case['cycles']
    mdim = {2: 1, 4: 2, 8: 3}[m]
    sims_arg = sims if case.get('sims_type', 'int') == 'int' else getattr(np, case['sims_type'])(sims)      # a lane count taken from an array shape / a NumPy computation
    knobs = case['knobs']
    al = lsim.ALPHABET[m]
    snodes = refmodels.s_nodes_of(c)
    s_len = len(snodes)
    mva = lsim.mv_stimulus(s_len, sims, m, case['vals'])
    if sims % 8: res.probe('lanes_not_multiple_of_8')
    if sims > 32768: res.probe('more_than_4096_bytes_per_signal')
    if cycles > 1: res.probe('multi_cycle')
    ev_lines = evaluated_lines(c, knobs['strip_forks'])
    if not ev_lines: return res
    # ---- resolve the fault plan against this circuit (explicit, no randomness)
    plan = {}
    for j in case['inj']:
        li = ev_lines[j['line'] % len(ev_lines)]
        cy = j['cycle']
        if cy >= cycles or (cy, li) in plan: continue
        mask = lane_mask(j['mask'], j['mask_seed'], sims)
        if not any(mask): continue
        plan[(cy, li)] = (mask, [al[j['vals'][l % len(j['vals'])] % len(al)] for l in range(sims)])

    def drive(sim, cb, api):
        """Run the cycles; returns per cycle (inputs s[0] at start, results s[1] at end)."""
        marks = {'cy': -1}
        snaps_in, snaps_out = [], []
        orig_s_to_c = sim.s_to_c

        def s_to_c_marked():
            if marks['cy'] >= 0: snaps_out.append(sim.s[1].copy())
            marks['cy'] += 1
            snaps_in.append(sim.s[0].copy())
            orig_s_to_c()
        sim.s_to_c = s_to_c_marked
        sim._marks = marks
        positional = case.get('call_form') == 'positional'
        if api == 'cycle':
            if cb is None: sim.cycle(cycles)
            elif positional: sim.cycle(cycles, cb)
            else: sim.cycle(cycles=cycles, inject_cb=cb)
            res.probe('cycle_api')
        else:
            for _ in range(cycles):
                sim.s_to_c()
                if cb is None: sim.c_prop()
                elif positional: sim.c_prop(cb)
                else: sim.c_prop(inject_cb=cb)
                sim.c_to_s()
                sim.s_ppo_to_ppi()
        snaps_out.append(sim.s[1].copy())
        res.count('logic_cycles', cycles)
        return snaps_in, snaps_out

    # ---- reference: no callback
    ref = lsim.make(c, sims_arg, m, knobs['c_reuse'], knobs['strip_forks'])
    lsim.assign(ref, mva)
    ref_in, ref_out = drive(ref, None, case['api'])
    ref_c = ref.c.copy()
    # ---- untouched callback: identical s[1] and c
    events0 = []
    t = lsim.make(c, sims_arg, m, knobs['c_reuse'], knobs['strip_forks'])
    lsim.assign(t, mva)
    t_in, t_out = drive(t, wrap_callback(lambda line, view: events0.append(operator.index(line)), case.get('cb_style', 'function'), case.get('cb_return', 'none')), case['api'])
    res.probe('untouched_callback_run')
    for cy in range(cycles):
        if not np.array_equal(t_out[cy], ref_out[cy]):
            res.violate('untouched-callback-changes-result', f'm={m} cycle {cy}: s[1] differs between c_prop(cb) with an untouched callback and c_prop()'); return res
    if not np.array_equal(t.c, ref_c):
        res.violate('untouched-callback-changes-memory', f'm={m}: signal memory differs between c_prop(cb) with an untouched callback and c_prop()'); return res
    # ---- run under test: monitor + injector
    sim = lsim.make(c, sims_arg, m, knobs['c_reuse'], knobs['strip_forks'])
    lsim.assign(sim, mva)
    events = []   # (cycle, line index, planes snapshot before overwrite)
    nbytes = (sims - 1) // 8 + 1

    def cb(line, view):
        cy = sim._marks['cy']
        try:
            li = operator.index(line)
        except TypeError:
            res.violate('callback-bad-identity', f'first callback argument {type(line).__name__} has no __index__'); raise core.AbortRun(res)
        if not isinstance(view, np.ndarray) or view.shape != (mdim, nbytes):
            res.violate('callback-bad-values', f'second callback argument for line {li} is {type(view).__name__} of shape {getattr(view, "shape", None)}, expected the signal\'s values ({mdim} planes x {nbytes} bytes)')
            raise core.AbortRun(res)
        events.append((cy, li, view.copy()))
        p = plan.get((cy, li))
        if p is not None:
            mask, vals = p
            for lane in range(sims):
                if mask[lane]: set_lane(view, lane, vals[lane], mdim)
            res.fault('F-inj')
    run_in, run_out = drive(sim, wrap_callback(cb, case.get('cb_style', 'function'), case.get('cb_return', 'none')), case['api'])
    # back to the fault-free responses WITHOUT assigning again: the input slots are intact after a propagation, so a plain
    # c_prop() on the same object evaluates everything anew (an injection lives as long as the call it was passed to)
    if cycles == 1 and case['api'] != 'cycle':
        sim.c_prop()
        sim.c_to_s()
        res.probe('plain_repropagation_after_injection')
        if not np.array_equal(sim.s[1], ref_out[0]):
            res.violate('injection-persists-on-object', f'm={m}: s_to_c(); c_prop(inject_cb); c_prop(); c_to_s() on one simulator object differs from the fault-free reference (the plain propagation did not evaluate everything anew)')
            return res
    # a callback that raises in mid-propagation (a fault simulator giving up on a pattern): the object stays usable
    if case.get('raise_at') is not None:
        class _Stop(Exception): pass
        seen_calls = [0]

        def raiser(line, view):
            seen_calls[0] += 1
            if seen_calls[0] > case['raise_at']: raise _Stop()
        lsim.assign(sim, mva)
        try:
            sim.s_to_c()
            sim.c_prop(inject_cb=raiser)
        except _Stop:
            res.probe('callback_raised_mid_propagation')
    # fault-simulation loop: the SAME simulator object, same patterns assigned again, no callback: the fault-free reference
    lsim.assign(sim, mva)
    again_in, again_out = drive(sim, None, case['api'])
    for cy in range(cycles):
        if not np.array_equal(again_out[cy], ref_out[cy]):
            res.violate('injection-persists-on-object', f'm={m} cycle {cy}: after a propagation with injections, a callback-free run of the same simulator object on the same patterns differs from the fault-free reference')
            return res
    res.log.add('ev', [(cy, li) for cy, li, _ in events][:400])
    res.log.add_array('out', run_out[-1])
    # ---- history checks
    expected = set(ev_lines)
    for cy in range(cycles):
        seen = {}
        for pos, (ecy, li, _) in enumerate(events):
            if ecy != cy: continue
            if li in seen:
                res.violate('callback-not-exactly-once', f'm={m} cycle {cy}: callback invoked twice for line {li}'); return res
            seen[li] = pos
            if li not in expected:
                res.violate('callback-for-unevaluated-signal', f'm={m} cycle {cy}: callback invoked for line {li} which is not an evaluated signal of this configuration'); return res
        missing = sorted(expected - set(seen))
        if missing:
            res.violate('callback-not-exactly-once', f'm={m} cycle {cy}: callback never invoked for evaluated line(s) {missing[:6]} ({len(seen)} of {len(expected)} signals seen)'); return res
        # dependency order: every operand (resolved through stripped forks) was reported before its reader
        for li, pos in seen.items():
            d = c.lines[li].driver
            if id(d) in {id(n) for n in snodes}: continue
            for il in d.ins:
                if il is None: continue
                x = il
                while x.index not in seen and x.driver.kind == '__fork__' and len(x.driver.ins) > 0 and x.driver.ins[0] is not None: x = x.driver.ins[0]
                if x.index in seen and seen[x.index] > pos:
                    res.violate('callback-out-of-evaluation-order', f'm={m} cycle {cy}: line {li} reported before its operand line {x.index}'); return res
    # ---- refinement against the cut circuit, per cycle and lane group
    changed = False
    for cy in range(cycles):
        inj_here = sorted(li for (ccy, li) in plan if ccy == cy)
        groups = {}
        for lane in range(sims):
            key = tuple(li for li in inj_here if plan[(cy, li)][0][lane])
            groups.setdefault(key, []).append(lane)
        if len(inj_here) >= 2:
            # probe: one injection upstream of another (harness's own reachability walk)
            if upstream_pair(c, inj_here): res.probe('injection_upstream_of_another')
        run_res = lanes_of_s(run_out[cy], mdim, sims)
        evs = [(li, snap) for ecy, li, snap in events if ecy == cy]
        for key, lanes in sorted(groups.items()):
            cc, orig, new_inputs = cut_circuit(case['script'], list(key))
            o = lsim.make(cc, sims, m, False, knobs['strip_forks'])
            osn = refmodels.s_nodes_of(cc)
            name_idx = {(n.name, n.kind): i for i, n in enumerate(osn)}
            for i, n in enumerate(snodes):
                o.s[0, name_idx[(n.name, n.kind)]] = run_in[cy][i]
            for li, si in new_inputs.items():
                mask, vals = plan[(cy, li)]
                pl = np.zeros((3, nbytes), dtype=np.uint8)
                for lane in range(sims): set_lane(pl, lane, vals[lane], 3 if m == 8 else mdim)
                o.s[0, si] = pl
            o.s_to_c(); o.c_prop(); o.c_to_s()
            res.count('oracle_runs')
            ores = lanes_of_s(o.s[1], mdim, sims)
            for i, n in enumerate(snodes):
                oi = name_idx[(n.name, n.kind)]
                if len(n.ins) == 0 or n.ins[0] is None: continue
                for lane in lanes:
                    if run_res[i, lane] != ores[oi, lane]:
                        res.violate('injection-not-equivalent-to-cut-circuit', f'm={m} cycle {cy} lane {lane} (injected lines {list(key)}): result at {n.name} = {run_res[i, lane]}, '
                                                                               f'simulating the circuit with those lines driven by the overwritten values gives {ores[oi, lane]}')
                        return res
            # the values every callback saw (before overwriting) equal the cut-circuit values of that line
            for li, snap in evs:
                if li in key: continue
                nl = orig[li]
                if nl.circuit is None: continue
                loc = int(o.c_locs[nl.index])
                if loc < 0: continue
                a, b = lanes_of(snap, sims), lanes_of(o.c[loc], sims)
                for lane in lanes:
                    if a[lane] != b[lane]:
                        res.violate('callback-view-wrong-values', f'm={m} cycle {cy} lane {lane}: callback for line {li} saw value {a[lane]}, the circuit with lines {list(key)} driven by the overwritten values computes {b[lane]}')
                        return res
        ref_res = lanes_of_s(ref_out[cy], mdim, sims) if cy == 0 else None
        if cy == 0 and inj_here and not np.array_equal(ref_res, run_res): changed = True
        if cy > 0 and inj_here: changed = changed or not np.array_equal(run_out[cy], ref_out[cy])
    if changed: res.probe('injection_changed_result'); res.nontrivial = True
    return res


def wrap_callback(f, style, ret='none'):
    """Any callable is a legal callback: a plain function, a functools.partial, a bound method, or a callable object whose
    truth value happens to be False (e.g. an empty list subclass used as recorder).  What it returns is its own business
    (a recorder's `dict.setdefault(...)`, an injector's 'did I inject' flag): the values are changed in place only."""
    if ret != 'none':
        f0 = f

        def f(line, view):
            f0(line, view)
            return True if ret == 'true' else 0 if ret == 'zero' else line if ret == 'line' else np.zeros_like(view)
    if style == 'falsy_object':
        class Recorder(list):
            def __call__(self, line, view): return f(line, view)
        return Recorder()
    if style == 'partial':
        import functools
        return functools.partial(lambda tag, line, view: f(line, view), 'tag')
    if style == 'method':
        class Holder:
            def cb(self, line, view): return f(line, view)
        return Holder().cb
    return f


def lanes_of_s(s1, mdim, sims):
    """s[1] (s_len, 3, nbytes) -> (s_len, sims) integer codes over the first mdim planes."""
    out = np.zeros((s1.shape[0], sims), dtype=np.int64)
    for i in range(s1.shape[0]): out[i] = lanes_of(s1[i, :mdim], sims)
    return out


def upstream_pair(c, lines):
    tgt = set(lines)
    for li in lines:
        seen = set()
        stack = [c.lines[li].reader]
        while stack:
            n = stack.pop()
            if id(n) in seen: continue
            seen.add(id(n))
            if 'dff' in n.kind.lower() or 'latch' in n.kind.lower(): continue
            for ol in n.outs:
                if ol is None: continue
                if ol.index in tgt and ol.index != li: return True
                stack.append(ol.reader)
    return False


def shrinks(case):
    if case['inj']:
        for j in range(len(case['inj'])): yield dict(case, inj=case['inj'][:j] + case['inj'][j + 1:])
    if case['cycles'] > 1: yield dict(case, cycles=case['cycles'] - 1)
    for s in cgen.shrink_script(case['script']): yield dict(case, script=s)
    if case['sims'] > 1: yield dict(case, sims=max(1, case['sims'] // 2))
    for k in ('c_reuse', 'strip_forks'):
        if case['knobs'][k]: yield dict(case, knobs=dict(case['knobs'], **{k: False}))
    if case['api'] == 'cycle': yield dict(case, api='explicit')
    for j, i in enumerate(case['inj']):
        if i['mask'] != 'all': yield dict(case, inj=case['inj'][:j] + [dict(i, mask='all')] + case['inj'][j + 1:])
    if len(case['vals']) > 1: yield dict(case, vals=case['vals'][:len(case['vals']) // 2])
