#!/usr/bin/env python3
"""Pin a witness case for a known finding:  PYTHONPATH=/verif:/repo/src tools/mkwitness.py <prop> <key> <seed> <tier> <run>
Regenerates the case of that run, minimises it while the finding key stays the same, writes findings/<key>.json."""
import json, os, sys, time
sys.path.insert(0, os.path.dirname(os.path.dirname(os.path.abspath(__file__))))
from dsim import core

prop, key, seed, tier, run = sys.argv[1], sys.argv[2], int(sys.argv[3]), sys.argv[4], int(sys.argv[5])
core.import_kyupy()
mod = core.load_check(prop)
case = mod.gen(core.rng_for(seed, prop, run), tier, run)


def kinds_of(c):
    try: r = core.execute_guarded(mod, c)
    except core.HarnessError: return [], None
    return [v['kind'] for v in r.violations if mod.finding_key(c, r, v['kind']) == key], r


ks, res = kinds_of(case)
assert ks, 'this run does not show the finding'
t_end = time.monotonic() + 120
improved = True
while improved and time.monotonic() < t_end:
    improved = False
    for cand in mod.shrinks(case):
        k2, r2 = kinds_of(cand)
        if k2 and len(r2.violations) == len(k2):
            case, ks, res, improved = cand, k2, r2, True
            break
os.makedirs(os.path.join(core.VERIF, 'findings'), exist_ok=True)
path = os.path.join(core.VERIF, 'findings', key + '.json')
v = next(v for v in res.violations if v['kind'] == ks[0])
json.dump({'property': prop, 'key': key, 'seed': seed, 'run': run, 'kind': ks[0], 'violation': v, 'digest': res.log.digest(), 'notes': res.notes, 'case': case},
          open(path, 'w'), indent=1, sort_keys=True)
print(path, ks, v['detail'][:300])
