"""Self-tests of the harness (run on demand, not registered in MANIFEST):

  ./check selftest-determinism [PROPS...]   every check twice in separate interpreters (hash seeds 0 / 12345, 16 / 1 workers);
                                            batch digests must be identical
  ./check selftest-mutants [IDS...]         scratch-copy mutants of /repo/src (copied under $TMPDIR, never /repo or /verif);
                                            each must be caught by the quick tier of its property; copy deleted afterwards
"""
import os
import re
import shutil
import subprocess
import sys
import tempfile

from . import core

# (id, properties whose quick tier must catch it, file, old text, new text)
MUTANTS = [
    ('m01-level-test-ignores-4th-operand', ['C07'], 'sim.py',
     "if levels[i0_idx] >= current_level or levels[i1_idx] >= current_level or levels[i2_idx] >= current_level or levels[i3_idx] >= current_level:",
     "if levels[i0_idx] >= current_level or levels[i1_idx] >= current_level or levels[i2_idx] >= current_level:"),
    ('m02-free-before-level-allocs', ['C07', 'C08'], 'sim.py',
     "                if ref_count[i3_idx] <= 0: free_set.add(self.c_locs[i3_idx])\n",
     "                if ref_count[i3_idx] <= 0: free_set.add(self.c_locs[i3_idx])\n                if c_reuse:\n                    for loc in free_set: h.free(loc)\n                    free_set = set()\n"),
    ('m03-level-test-uses-branch-not-stem', ['C07'], 'sim.py',
     "            i0_idx = stems[op[2]] if stems[op[2]] >= 0 else op[2]\n            i1_idx = stems[op[3]] if stems[op[3]] >= 0 else op[3]\n            i2_idx = stems[op[4]] if stems[op[4]] >= 0 else op[4]\n            i3_idx = stems[op[5]] if stems[op[5]] >= 0 else op[5]\n            if levels[i0_idx]",
     "            i0_idx = stems[op[2]] if stems[op[2]] >= 0 else op[2]\n            i1_idx = op[3]\n            i2_idx = stems[op[4]] if stems[op[4]] >= 0 else op[4]\n            i3_idx = stems[op[5]] if stems[op[5]] >= 0 else op[5]\n            if levels[i0_idx]"),
    ('m04-no-pin-for-captured-lines', ['C08'], 'sim.py',
     "                i0_idx = stems[n.ins[0]] if stems[n.ins[0]] >= 0 else n.ins[0]\n                ref_count[i0_idx] += 1\n",
     "                i0_idx = stems[n.ins[0]] if stems[n.ins[0]] >= 0 else n.ins[0]\n"),
    ('m05-heap-free-skips-left-merge', ['C08'], 'sim.py',
     "        if released_idx > 0:  # check if previous chunk is free",
     "        if False:  # check if previous chunk is free"),
    ('m06-heap-split-keeps-remainder-size', ['C08'], 'sim.py',
     "                self.chunks[loc + size] = chunksize - size",
     "                self.chunks[loc + size] = chunksize"),
    ('m07-nonatomic-accumulate', ['C07', 'C13'], 'wave_sim.py',
     "        cuda.atomic.add(abuf, (a_loc, sim), nrise*a_wr + nfall*a_wf)",
     "        abuf[a_loc, sim] += nrise*a_wr + nfall*a_wf"),
    ('m08-guard-sim-stop-removed', ['C06'], 'wave_sim.py',
     "    if sim >= sim_stop: return\n    if op_idx >= op_stop: return",
     "    if sim >= cbuf.shape[-1]: return\n    if op_idx >= op_stop: return"),
    ('m09-overflow-keeps-zcur', ['C03'], 'wave_sim.py',
     "                    previous_t = cbuf[z_mem + z_cur - 1, sim]\n                    z_cur -= 1",
     "                    previous_t = cbuf[z_mem + z_cur - 1, sim]"),
    ('m10-terminator-always-tmax', ['C13'], 'wave_sim.py',
     "    cbuf[z_mem + z_cur, sim] = TMAX_OVL if overflows > 0 else max(a, b, c, d)",
     "    cbuf[z_mem + z_cur, sim] = TMAX"),
    ('m11-nfall-miscount', ['C13'], 'wave_sim.py',
     "    nfall = z_cur // 2",
     "    nfall = (z_cur + 1) // 2"),
    # (an IndexList that forgets to re-index crashes already while kyupy.techlib is imported - not a useful mutant)
    ('m12-copy-reverses-port-order', ['C09', 'C10'], 'circuit.py',
     "        for node in self.io_nodes:\n            if node.kind == '__fork__':\n                n = c.forks[node.name]",
     "        for node in reversed(self.io_nodes):\n            if node.kind == '__fork__':\n                n = c.forks[node.name]"),
    ('m24-eliminate-splices-to-pin0', ['C09', 'C10'], 'circuit.py',
     "            in_line.reader_pin = out_reader_pin\n",
     "            in_line.reader_pin = 0\n"),
    ('m13-line-remove-no-squeeze', ['C09'], 'circuit.py',
     "                for i, l in enumerate(self.driver.outs): l.driver_pin = i",
     "                pass"),
    ('m14-getstate-drops-reader-pin', ['C09', 'C10'], 'circuit.py',
     "            Line(self, (self.nodes[driver], driver_pin), (self.nodes[reader], reader_pin))",
     "            Line(self, (self.nodes[driver], driver_pin), self.nodes[reader])"),
    ('m15-substitute-outputs-to-pin0', ['C10'], 'circuit.py',
     "                ll.driver = node_map[l.driver]\n                ll.driver_pin = l.driver_pin",
     "                ll.driver = node_map[l.driver]\n                ll.driver_pin = 0"),
    ('m16-callback-gets-copy-8v', ['C16'], 'logic_sim.py',
     "                if inject_cb is not None and ol < len(self.circuit.lines): inject_cb(self.circuit.lines[ol], self.c[o0])\n\n    def c_to_s(self):",
     "                if inject_cb is not None and ol < len(self.circuit.lines): inject_cb(self.circuit.lines[ol], self.c[o0].copy())\n\n    def c_to_s(self):"),
    ('m17-callback-skips-buffers-4v', ['C16'], 'logic_sim.py',
     "                if inject_cb is not None and ol < len(self.circuit.lines): inject_cb(self.circuit.lines[ol], self.c[o0])\n        else:",
     "                if inject_cb is not None and op != sim.BUF1 and ol < len(self.circuit.lines): inject_cb(self.circuit.lines[ol], self.c[o0])\n        else:"),
    ('m22-callback-wrong-line-2v', ['C16'], 'logic_sim.py',
     "                    if ol < len(self.circuit.lines): inject_cb(self.circuit.lines[ol], self.c[o0])",
     "                    if ol < len(self.circuit.lines): inject_cb(self.circuit.lines[max(ol - 1, 0)], self.c[o0])"),
    ('m23-callback-before-evaluation-of-buffers-8v', ['C16'], 'logic_sim.py',
     "                if op == sim.BUF1: self.c[o0]=self.c[i0]\n                elif op == sim.INV1: logic.bp8v_not(self.c[o0], self.c[i0])",
     "                if op == sim.BUF1: inject_cb is not None and ol < len(self.circuit.lines) and inject_cb(self.circuit.lines[ol], self.c[o0]); self.c[o0]=self.c[i0]; continue\n                elif op == sim.INV1: logic.bp8v_not(self.c[o0], self.c[i0])"),
    ('m25-cuda-getstate-loses-abuf', ['C06'], 'wave_sim.py',
     "        state['abuf'] = np.array(self.abuf)\n",
     "        state['abuf'] = np.zeros_like(np.array(self.abuf))\n"),
    ('m26-cuda-setstate-forgets-s', ['C06'], 'wave_sim.py',
     "        self.__dict__.update(state)\n        self.c = cuda.to_device(self.c)\n        self.s = cuda.to_device(self.s)\n",
     "        self.__dict__.update(state)\n        self.c = cuda.to_device(self.c)\n        self.s = cuda.to_device(np.zeros_like(self.s))\n"),
    ('m30-overflow-test-off-by-one', ['C03', 'C08'], 'wave_sim.py',
     "                if z_cur < (z_cap - 1):  # enough space in z_mem?",
     "                if z_cur <= (z_cap - 1):  # enough space in z_mem?"),
    ('m34-capture-counts-tmin-marker', ['C13'], 'wave_sim.py',
     "        if t < time:\n            val ^= 1\n        if t <= TMIN: continue\n        if s_sqrt2 > 0:\n            acc += m * (1 + math.erf((t - time) / s_sqrt2))\n        eat = min(eat, t)\n        lst = max(lst, t)\n        tog += 1\n    if s_sqrt2 > 0:\n        if m < 0:\n            acc += 1\n        if acc >= 0.99:\n            val = 1\n        elif acc > 0.01:\n            seed = (seed << 4) + (vector << 20) + c_loc",
     "        if t < time:\n            val ^= 1\n        if t < TMIN: continue\n        if s_sqrt2 > 0:\n            acc += m * (1 + math.erf((t - time) / s_sqrt2))\n        eat = min(eat, t)\n        lst = max(lst, t)\n        tog += 1\n    if s_sqrt2 > 0:\n        if m < 0:\n            acc += 1\n        if acc >= 0.99:\n            val = 1\n        elif acc > 0.01:\n            seed = (seed << 4) + (vector << 20) + c_loc"),
    ('m41-input-slots-not-pinned', ['C08'], 'sim.py',
     "                ref_count[self.ppi_offset + i] += 1\n",
     "                pass\n"),
    ('m44-copy-uses-implicit-pins', ['C09', 'C10'], 'circuit.py',
     "            Line(c, (d, line.driver_pin), (r, line.reader_pin))\n        for node in self.io_nodes:",
     "            Line(c, d, r)\n        for node in self.io_nodes:"),
    ('m45-getstate-sorts-ports', ['C09', 'C10'], 'circuit.py',
     "        io_nodes = [n.index for n in self.io_nodes]",
     "        io_nodes = sorted(n.index for n in self.io_nodes)"),
    ('m46-node-remove-keeps-fork-lookup', ['C09'], 'circuit.py',
     "            if self.kind == '__fork__':\n                del self.circuit.forks[self.name]\n            else:",
     "            if self.kind == '__fork__':\n                pass\n            else:"),
    ('m48-free-index-ignores-gaps', ['C09'], 'circuit.py',
     "        return next((i for i, x in enumerate(self) if x is None), len(self))",
     "        return len(self)"),
    ('m49-cycle-callback-first-cycle-only', ['C16'], 'logic_sim.py',
     "        for _ in range(cycles):\n            self.s_to_c()\n            self.c_prop(inject_cb)",
     "        for _ in range(cycles):\n            self.s_to_c()\n            self.c_prop(inject_cb if _ == 0 else None)"),
    ('m18-capture-uses-le', ['C13', 'C06'], 'wave_sim.py',
     "        t = c[line + tidx, vector]\n        if t >= TMAX:\n            if t == TMAX_OVL:\n                ovl = 1\n            break\n        m = -m\n        final ^= 1\n        if t < time:",
     "        t = c[line + tidx, vector]\n        if t >= TMAX:\n            if t == TMAX_OVL:\n                ovl = 1\n            break\n        m = -m\n        final ^= 1\n        if t <= time:"),
    ('m19-alias-copied-before-caps', ['C08'], 'sim.py',
     "                self.c_locs[lidx], self.c_caps[lidx] = self.c_locs[stem], self.c_caps[stem]",
     "                self.c_locs[lidx], self.c_caps[lidx] = self.c_locs[stem], max(4, self.c_caps[stem] - 4)"),
    ('m20-refcount-on-branch', ['C08', 'C07'], 'sim.py',
     "            ref_count[i0_idx] += 1\n            ref_count[i1_idx] += 1\n            ref_count[i2_idx] += 1\n            ref_count[i3_idx] += 1\n        self.level_starts",
     "            ref_count[op[2]] += 1\n            ref_count[i1_idx] += 1\n            ref_count[i2_idx] += 1\n            ref_count[i3_idx] += 1\n        self.level_starts"),
    ('m21-eval-reads-neighbour-lane', ['C06', 'C07'], 'wave_sim.py',
     "    d = cbuf[d_mem + d_cur, sim] + delays[d_idx, 0, z_val]\n\n    previous_t = TMIN",
     "    d = cbuf[d_mem + d_cur, max(sim - 1, 0)] + delays[d_idx, 0, z_val]\n\n    previous_t = TMIN"),
]


def run_mutant(mid, props, fname, old, new, seed, runs=None, verbose=True):
    tmp = tempfile.mkdtemp(prefix='kyupy_mut_', dir=os.environ.get('TMPDIR', '/tmp'))
    ok_all = True
    try:
        shutil.copytree(os.path.join(core.REPO_SRC, 'kyupy'), os.path.join(tmp, 'kyupy'))
        p = os.path.join(tmp, 'kyupy', fname)
        s = open(p).read()
        if s.count(old) != 1:
            print(f'MUTANT {mid}: pattern found {s.count(old)} times (source changed?) - SKIPPED')
            return None
        open(p, 'w').write(s.replace(old, new))
        for prop in props:
            env = dict(os.environ)
            env['KYUPY_VERIF_SRC'] = tmp
            env['PYTHONPATH'] = core.VERIF + os.pathsep + tmp
            env['VERIF_SEED'] = str(seed)
            cmd = [sys.executable, '-m', 'dsim.main', prop, '--no-evidence'] + (['--runs', str(runs)] if runs else [])
            r = subprocess.run(cmd, cwd=core.VERIF, env=env, stdout=subprocess.PIPE, stderr=subprocess.STDOUT, text=True, timeout=1800)
            caught = r.returncode == 1 and 'VIOLATION property=' + prop in r.stdout
            kinds = sorted(set(re.findall(r'# violation kind=(\S+)', r.stdout)))
            nv = re.findall(r'viol_runs=(\d+)', r.stdout)
            print(f'MUTANT {mid} vs {prop}: {"CAUGHT" if caught else "MISSED (exit %d)" % r.returncode} kinds={kinds} viol_runs={nv[0] if nv else "?"}', flush=True)
            if not caught:
                ok_all = False
                if verbose: print('\n'.join('    ' + l for l in r.stdout.splitlines()[-6:]))
    finally:
        shutil.rmtree(tmp, ignore_errors=True)
    return ok_all


def determinism(props, seed):
    ok = True
    for prop in props:
        digs = []
        for hs, workers in (('0', 16), ('12345', 16), ('777', 1)):
            env = dict(os.environ)
            env['PYTHONHASHSEED'] = hs
            env['VERIF_SEED'] = str(seed)
            runs = '400' if workers > 1 else '120'
            r = subprocess.run([sys.executable, '-m', 'dsim.main', prop, '--no-evidence', '--runs', runs, '--workers', str(workers)],
                               cwd=core.VERIF, env=env, stdout=subprocess.PIPE, stderr=subprocess.STDOUT, text=True, timeout=3600)
            m = re.findall(r'batch_digest=(\w+)', r.stdout)
            digs.append((hs, workers, runs, m[0] if m else 'NONE', r.returncode))
        # the 1-worker run covers a prefix: compare it against a 16-worker run of the same length
        env = dict(os.environ); env['PYTHONHASHSEED'] = '99'; env['VERIF_SEED'] = str(seed)
        r = subprocess.run([sys.executable, '-m', 'dsim.main', prop, '--no-evidence', '--runs', '120', '--workers', '16'],
                           cwd=core.VERIF, env=env, stdout=subprocess.PIPE, stderr=subprocess.STDOUT, text=True, timeout=3600)
        m = re.findall(r'batch_digest=(\w+)', r.stdout)
        digs.append(('99', 16, '120', m[0] if m else 'NONE', r.returncode))
        same = digs[0][3] == digs[1][3] and digs[2][3] == digs[3][3] and 'NONE' not in [d[3] for d in digs]
        print(f'DETERMINISM {prop}: {"OK" if same else "DIVERGED"} {digs}', flush=True)
        ok = ok and same
    return 0 if ok else 2


def main(target, rest, seed):
    if target == 'selftest-determinism':
        props = [p.upper() for p in rest] or ['C03', 'C06', 'C07', 'C08', 'C09', 'C10', 'C13', 'C16']
        return determinism(props, seed)
    sel = set(rest)
    bad = 0
    for mid, props, fname, old, new in MUTANTS:
        if sel and not any(mid.startswith(s) or s in props for s in sel): continue
        props_run = [p for p in props if not sel or p in sel or any(mid.startswith(s) for s in sel)]
        r = run_mutant(mid, props_run, fname, old, new, seed)
        if r is False: bad += 1
    return 0 if bad == 0 else 2
