"""C03 - timing simulation settles to the Boolean function for any delays/capacity.

In-family clause: the statement stays true when waveforms overflow their capacity (the simulator's explicit degraded mode).
Fault plan F-cap: a random subset of lines gets the minimum capacity 4; the paired fault-free run uses 64 everywhere.
Oracle (narrow): an overflow may lose transitions, never values - first entry encodes RefEval(initial inputs), entry-count
parity encodes RefEval(final inputs), s[3] and s[6] report the same, every waveform is terminated inside its capacity.
Fault-free tier (separately counted): the same oracle with ample capacity, under option knobs, F-reuse batches and F-poison.
"""
from .. import core, wavegen, waveoracle, wsim
from .. import gen as cgen

PROP = 'C03'
TIERS = {
    'quick': {'runs': 3000, 'chunk': 20, 'wall_cap': 80, 'min_budget': 30},
    'thorough': {'runs': 200000, 'chunk': 50, 'wall_cap': 850, 'min_budget': 60},
}
RULE = ('case = seeded circuit (biased to XOR/XNOR/MUX reconvergence) + skewed polarity-dependent dyadic delays + input waveforms with 0-3 transitions + 1-3 reuse batches + option knobs '
        '{c_reuse, strip_forks, CPU/GPU class with a seeded thread order} + capacity fault plan (random subset of lines at capacity 4, or everything at 4/8) and the paired run with capacity 64; '
        'non-trivial iff the faulted run actually overflowed (some waveform ends in the overflow marker); distinct = distinct case digests')
REAL_VS_STUB = {'real': ['kyupy.wave_sim kernels and host code (WaveSim, WaveSimCuda)', 'kyupy.sim.SimOps'], 'stub': ['CUDA runtime -> SimCuda (order mode) when the GPU class is drawn']}
ASSUMPTIONS = ['delays non-negative, finite, dyadic, <= 64 (beyond ~2^100 a delay added to TMIN stops being TMIN and the encoding of initial values breaks down - outside finite delays in any practical sense)',
               'input waveforms have strictly increasing transition times and fit the input-slot capacity 4',
               'RefEval: an unconnected trailing pin reads 0; every port/state element is a cut']
EXPECTED_PROBES = ['inputs_rewritten_between_propagations', 'overflow_occurred', 'faulted_run', 'custom_input_waveform', 'reuse_batches']


def gen(rng, tier, i):
    script = cgen.gen_script(rng, max_gates=rng.choice([6, 12, 24, 40 if tier == 'thorough' else 24]), max_in=5, max_ff=2, p_glitchy=rng.choice([0.3, 0.5, 0.7]),
                             want_dangling=rng.random() < 0.15)
    if rng.random() < 0.03: script = {'net': 'b01'}
    sims = rng.randint(1, 4)
    r = rng.random()
    if r < 0.45: caps = {'default': 16, 'vec': [rng.choice([4, 4, 4, 8, 32, 64]) for _ in range(rng.randint(2, 13))]}
    elif r < 0.65: caps = {'default': 4, 'vec': None}
    elif r < 0.75: caps = {'default': 8, 'vec': None}
    else: caps = {'default': 64, 'vec': None}      # fault-free only
    case = {'script': script, 'sims': sims, 'delays': wavegen.gen_delays(rng, skew=rng.choice(['wild', 'wild', 'mild', 'equal'])), 'caps': caps,
            'argforms': wavegen.gen_argforms(rng), 'batches': wavegen.gen_batches(rng, n_max=3, sims=sims, p_custom=0.7, p_k=0.2, p_time=0.0), 'actrl': None,
            'cfg': {'cls': rng.choice(['cpu', 'cpu', 'gpu']), 'c_reuse': rng.random() < 0.4, 'strip_forks': rng.random() < 0.4,
                    'sched': wavegen.gen_order_sched(rng), 'block': wavegen.gen_block(rng)},
            'poison': {'vals': [rng.choice([0, 1, 7, 40, float(wsim.TMIN), float(wsim.TMAX), float(wsim.TMAX_OVL)]) for _ in range(5)]} if rng.random() < 0.4 else None}
    for b in case['batches']:
        if b['custom'] and rng.random() < 0.15: b['reprop'] = True; b['custom_late'] = True      # propagate, replace input waveforms in c, propagate again without a new s_to_c()
    return case


def execute(case):
    res = core.Result()
    built = cgen.build(case['script'])
    cfg = dict(case['cfg'], snapshots=True)
    if case.get('poison'): cfg['poison'] = case['poison']; res.fault('F-poison')
    if len(case['batches']) > 1: res.probe('reuse_batches'); res.fault('F-reuse-batches', len(case['batches']) - 1)
    faulted = case['caps']['default'] < 64 or case['caps'].get('vec') is not None
    if faulted:
        res.probe('faulted_run'); res.fault('F-cap')
        h, outs = wsim.run_config(built, case, cfg, res, monitors=())
        ovl = False
        for bno, o in enumerate(outs):
            kk = case['batches'][bno].get('k')      # a batch restricted to the first k lanes is judged on those lanes only; later batches on all lanes
            if kk: res.fault('F-lanes-k')
            if not waveoracle.check_values(h, o, res, 'ovl-', lanes=range(kk) if kk else None, label=f'capacity-faulted run batch {bno}: '): return res
            ovl = ovl or waveoracle.any_overflow(o)
        if ovl: res.probe('overflow_occurred'); res.nontrivial = True
        res.log.add('f', [wsim.crc(o['s'][3:8]) for o in outs])
    # paired fault-free run: capacity 64 everywhere
    h2, outs2 = wsim.run_config(built, case, dict(cfg, caps={'default': 64, 'vec': None}), res, monitors=())
    res.count('faultfree_runs')
    for bno, o in enumerate(outs2):
        kk = case['batches'][bno].get('k')
        if not waveoracle.check_values(h2, o, res, 'ff-', lanes=range(kk) if kk else None, label=f'ample-capacity run batch {bno}: '): return res
    res.log.add('a', [wsim.crc(o['s'][3:8]) for o in outs2])
    return res


def shrinks(case):
    yield from wavegen.shrink_wave_case(case)
    cfg = case['cfg']
    if cfg['cls'] == 'gpu': yield dict(case, cfg=dict(cfg, cls='cpu'))
    for k in ('c_reuse', 'strip_forks'):
        if cfg[k]: yield dict(case, cfg=dict(cfg, **{k: False}))
    if case.get('poison'): yield dict(case, poison=None)
    cp = case['caps']
    if cp.get('vec') and len(cp['vec']) > 1: yield dict(case, caps=dict(cp, vec=cp['vec'][:len(cp['vec']) // 2]))
