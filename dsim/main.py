"""Command line entry: ./check <PROP> [--tier T] | --replay <file> | selftest-*"""
import argparse
import os
import sys

from . import core


def main(argv=None):
    ap = argparse.ArgumentParser(prog='check')
    ap.add_argument('target', nargs='?')
    ap.add_argument('--tier', default=os.environ.get('VERIF_TIER', 'quick'), choices=['quick', 'thorough'])
    ap.add_argument('--runs', type=int)
    ap.add_argument('--workers', type=int)
    ap.add_argument('--wall-cap', type=float)
    ap.add_argument('--replay')
    ap.add_argument('--quiet', action='store_true')
    ap.add_argument('--no-evidence', action='store_true')
    ap.add_argument('--one', type=int, help='execute only run index N of the check and print its result')
    ap.add_argument('rest', nargs='*')
    a = ap.parse_args(argv)
    seed = int(os.environ.get('VERIF_SEED', '0') or 0)
    try:
        try:
            core.import_kyupy()
        except core.HarnessError:
            raise
        except Exception as e:  # noqa
            raise core.HarnessError(f'kyupy cannot be imported: {type(e).__name__}: {e}')
        if a.replay:
            rep, same, res, rp = core.replay_file(a.replay, quiet=a.quiet)
            if rep:
                print(f"REPLAY-OK kind={rp['kind']} digest_same={same}")
                print(f"VIOLATION property={rp['property']} replay={a.replay}")
                return 1
            print(f"REPLAY: violation kind={rp['kind']} NOT reproduced on this tree")
            return 0
        if a.target in ('selftest-determinism', 'selftest-sensitivity', 'selftest-mutants'):
            from . import selftest
            return selftest.main(a.target, a.rest, seed)
        if not a.target:
            ap.error('need a property id')
        prop = a.target.upper()
        if a.one is not None:
            mod = core.load_check(prop)
            case = mod.gen(core.rng_for(seed, prop, a.one), a.tier, a.one)
            res = core.execute_guarded(mod, case)
            print(core.jdump(case)[:4000])
            print(core.jdump(res.summary())[:6000])
            return 1 if res.violations else 0
        code, _ = core.run_check(prop, a.tier, seed, runs=a.runs, workers=a.workers, wall_cap=a.wall_cap,
                                 write_evidence=not a.no_evidence)
        return code
    except core.HarnessError as e:
        print('# HARNESS ERROR: ' + str(e))
        return 2
    except Exception:  # noqa - anything unexpected is a harness error, never a verdict
        import traceback
        print('# HARNESS ERROR (unexpected exception):')
        print('#   ' + traceback.format_exc().replace('\n', '\n#   '))
        return 2


if __name__ == '__main__':
    sys.exit(main())
