#!/bin/bash
# Soundness sweep: quick tier of every check under many VERIF_SEED values; prints only what needs attention.
# usage: tools/sweep.sh <first seed> <last seed> [props...]
cd "$(dirname "$0")/.."
A=$1; B=$2; shift 2
PROPS="${@:-C03 C06 C07 C08 C09 C10 C13 C16}"
for s in $(seq $A $B); do
  for p in $PROPS; do
    out=$(VERIF_SEED=$s ./check $p --tier quick --no-evidence 2>&1); rc=$?
    echo "seed=$s $p exit=$rc $(echo "$out" | grep -E '^# C[0-9]+:' | cut -c1-120)"
    if [ $rc -ne 0 ]; then echo "$out" | grep -E '^(VIOLATION|# violation|# HARNESS|#   )' | cut -c1-400 | head -20; fi
  done
done
