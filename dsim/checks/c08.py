"""C08 - signal-memory map and allocator never let live data overlap.

Three kinds of run, chosen by the case:
  heap  alloc/free histories on kyupy.sim.Heap against RefHeap, invariants after every step        (allocator sentence)
  map   real SimOps objects (WaveSim flavour: capacity vectors, minimum 4; LogicSim flavour: capacity 1) for seeded
        circuits x {c_reuse} x {strip_forks}: static map checks + token executor                        (map sentence)
  dyn   real WaveSim / WaveSimCuda propagation with the shadow-ownership monitor M2, F-poison of dead storage at every
        level boundary and F-reuse batches; port results must equal the unpoisoned run and the run without re-use
"""
import os

import numpy as np

from .. import core, heapsim, tokens, wavegen, wsim
from .. import gen as cgen

PROP = 'C08'
TIERS = {
    'quick': {'runs': 6000, 'chunk': 30, 'wall_cap': 80, 'min_budget': 30},
    'thorough': {'runs': 400000, 'chunk': 100, 'wall_cap': 850, 'min_budget': 60},
}
RULE = ('run kinds: heap (seeded alloc/free histories, 3-800 steps, shapes uniform / burst-then-free / adversarial address-order frees; checked after every step), '
        'map (seeded circuit x capacity vector x c_reuse x strip_forks -> real SimOps; static bounds/alias/pinned-slot checks + order-independent token execution), '
        'dyn (real waveform propagation under M2 shadow ownership with dead-storage poison at every level boundary, 1-3 reuse batches), '
        'big (one case in the quick tier, one in 4000 in the thorough tier: the shipped netlists b01.bench / b15_2ig.v.gz with random capacity vectors through the token executor). '
        'non-trivial: heap history in which a freed chunk was handed out again or a free coalesced on both sides; map/dyn run with c_reuse in which some chunk was actually recycled for another signal; '
        'distinct = distinct case digests')
REAL_VS_STUB = {'real': ['kyupy.sim.Heap', 'kyupy.sim.SimOps.__init__ (ref-counts, level-wise allocation, aliasing, c_len)', 'dyn: kyupy.wave_sim kernels and host code'],
                'stub': ['map/big: gate evaluation replaced by tokens (schedule and memory map are the real objects)', 'dyn on GPU path: SimCuda scheduler instead of the CUDA runtime']}
ASSUMPTIONS = ['misuse of the allocator (double free, free of an unknown address) is outside the statement and not generated',
               'no allocation policy is assumed (first-fit, best-fit, alignment would all pass); the high-water mark is compared with the running maximum of the tiled extent',
               "liveness model used for poisoning is the weakest possible: a cell is dead iff no later op or capture of this schedule reads it"]
EXPECTED_PROBES = ['chunk_reused', 'chunk_split', 'coalesced_both_sides', 'coalesced_one_side', 'tail_trim', 'token_chunk_recycled', 'alias_checked', 'dyn_chunk_recycled']

TESTS = '/repo/tests'


def gen(rng, tier, i):
    r = rng.random()
    if (tier == 'thorough' and i % 4000 == 17) or (tier == 'quick' and i == 17):      # (quick: one shipped netlist - sizes beyond 2**15 references / 2**16 rows occur only there)
        return {'mode': 'big', 'net': rng.choice(['b01', 'b15', 'b15']) if tier == 'thorough' else 'b15', 'caps': {'default': 16, 'vec': [rng.choice([4, 8, 16, 32]) for _ in range(rng.randint(3, 50))]},
                'flavour': rng.choice(['wave', 'logic']), 'branchforks': rng.random() < 0.5}
    if r < 0.40: return heapsim.gen_history(rng, tier)
    script = cgen.gen_script(rng, max_gates=rng.choice([8, 16, 30, 40]), max_in=6, max_ff=3)
    if rng.random() < 0.03: script = {'net': 'b01'}
    if r < 0.72:
        if rng.random() < 0.02 and not script.get('net'): script['long_chain'] = rng.randrange(1 << 16)      # one net through 1200 forks in series (deeper than the default recursion limit)
        return {'mode': 'map', 'script': script, 'flavour': rng.choice(['wave', 'wave', 'logic', 'generic']), 'caps': wavegen.gen_caps(rng, p_fault=0.7),
                'caps_min': rng.choice([1, 2, 4, 8]), 'small_caps': [rng.choice([1, 2, 3, 4, 8, 16]) for _ in range(rng.randint(1, 9))],
                'knobs': [[a, b] for a in (False, True) for b in (False, True)], 'order_seed': rng.randrange(1 << 20),
                'actrl': wavegen.gen_actrl(rng, p=0.2)}
    sims = rng.randint(1, 4)
    return {'mode': 'dyn', 'script': script, 'sims': sims, 'delays': wavegen.gen_delays(rng), 'caps': wavegen.gen_caps(rng, p_fault=0.6),
            'argforms': wavegen.gen_argforms(rng), 'batches': wavegen.gen_batches(rng, n_max=3, sims=sims, p_k=0.0, p_reprop=0.2), 'actrl': None,
            'strip_forks': rng.random() < 0.5, 'cls': rng.choice(['cpu', 'cpu', 'gpu']), 'sched': wavegen.gen_order_sched(rng), 'block': wavegen.gen_block(rng),
            'poison': {'vals': [rng.choice([0, 1, 2.5, 7, 11.25, 40, 100, float(wsim.TMIN), float(wsim.TMAX), float(wsim.TMAX_OVL), -3]) for _ in range(rng.randint(3, 11))]}}


def make_simops(circuit, flavour, caps, c_reuse, strip_forks, actrl=None, case=None):
    import kyupy.sim as ksim
    nl = len(circuit.lines)
    if flavour == 'logic':
        return ksim.SimOps(circuit, c_reuse=c_reuse, strip_forks=strip_forks)
    if flavour == 'generic':      # SimOps used directly: any capacities, any minimum (capacities below the minimum are raised to it)
        sc = case['small_caps']
        return ksim.SimOps(circuit, c_caps=[int(sc[l % len(sc)]) for l in range(nl + 3)], c_caps_min=int(case['caps_min']), c_reuse=c_reuse, strip_forks=strip_forks)
    if caps is None: cc = 16
    elif caps.get('vec') is None: cc = int(caps.get('default', 16))
    else:
        cc = [int(caps['vec'][l % len(caps['vec'])]) for l in range(nl + 3 if caps.get('plus3', True) else nl)]
        if caps.get('dtype') == 'tuple': cc = tuple(cc)
        elif caps.get('dtype', 'list') != 'list':
            cc = np.array(cc, dtype=wsim.fitting_dtype(caps['dtype'], max(cc) if cc else 0))
            if caps.get('readonly'): cc.flags.writeable = False
    return ksim.SimOps(circuit, c_caps=cc, c_caps_min=4, a_ctrl=actrl, c_reuse=c_reuse, strip_forks=strip_forks)


def exec_map(case, res):
    built = cgen.build(case['script'])
    for c_reuse, strip in case['knobs']:
        so = make_simops(built.circuit, case['flavour'], case['caps'], c_reuse, strip, case=case)
        res.log.add('map', c_reuse, strip, int(so.c_len), wsim.crc(np.asarray(so.c_locs)), wsim.crc(np.asarray(so.ops)))
        meta = tokens.check_simops(so, built.circuit, [case['order_seed']], res, strip, label=f'c_reuse={c_reuse} strip_forks={strip}: ')
        res.count('maps')
        if c_reuse: res.fault('F-knob-reuse')
        if strip: res.fault('F-knob-strip')
        if res.violations: return
    if res.probes.get('token_chunk_recycled'): res.nontrivial = True


def exec_big(case, res):
    import kyupy.bench, kyupy.verilog
    from kyupy.techlib import SAED32
    import contextlib, io
    with contextlib.redirect_stdout(io.StringIO()):
        if case['net'] == 'b01': c = kyupy.bench.load(os.path.join(TESTS, 'b01.bench'))
        else:
            c = kyupy.verilog.load(os.path.join(TESTS, 'b15_2ig.v.gz'), branchforks=case['branchforks'], tlib=SAED32)
            c.resolve_tlib_cells(SAED32)
    for c_reuse in (False, True):
        for strip in (False, True):
            so = make_simops(c, case['flavour'], case['caps'], c_reuse, strip)
            tokens.check_simops(so, c, [1], res, strip, label=f"{case['net']} c_reuse={c_reuse} strip_forks={strip}: ")
            res.count('big_maps')
            res.log.add('big', int(so.c_len))
            if res.violations: return
    res.nontrivial = True
    res.probe('big_netlist')


def ports_equal(res, label, a, b, bno):
    sa, sb = a['s'], b['s']
    for rows in (slice(3, 8), slice(10, 11)):
        if not np.array_equal(sa[rows].view(np.uint32), sb[rows].view(np.uint32)):
            d = np.argwhere(sa[rows].view(np.uint32) != sb[rows].view(np.uint32))[0]
            r0 = rows.start
            res.violate('dyn-port-result-differs', f'{label} batch {bno}: s[{r0 + d[0]},{d[1]},{d[2]}] = {sb[r0 + d[0], d[1], d[2]]} vs {sa[r0 + d[0], d[1], d[2]]}')
            return False
    return True


def exec_dyn(case, res):
    built = cgen.build(case['script'])
    base = {'cls': case['cls'], 'strip_forks': case['strip_forks'], 'sched': case['sched'], 'block': case['block']}
    # reference: no re-use, no poison, no monitors
    h0, ref = wsim.run_config(built, case, dict(base, c_reuse=False), core.Result(), monitors=())
    # re-use on, M2 on, poison on
    h1, out1 = wsim.run_config(built, case, dict(base, c_reuse=True, poison=case['poison']), res, monitors=('M2',))
    res.fault('F-reuse-batches', len(case['batches']) - 1)
    meta = h1.meta
    starts = [int(meta.c_locs[l]) for l in range(meta.n_lines) if meta.root(l) == l]
    if len(starts) != len(set(starts)): res.probe('dyn_chunk_recycled'); res.nontrivial = True
    res.log.add('dyn', [wsim.crc(o['s'][3:8]) for o in out1])
    if res.violations: return
    for bno, (a, b) in enumerate(zip(ref, out1)):
        if not ports_equal(res, 'memory re-use + poisoned dead storage vs no re-use', a, b, bno): return
    # fault-free tier: re-use on, poison off -> must equal the poisoned run (cross-check of the liveness model)
    h2, out2 = wsim.run_config(built, case, dict(base, c_reuse=True), res, monitors=('M2',))
    res.count('faultfree_runs')
    for bno, (a, b) in enumerate(zip(out2, out1)):
        if not ports_equal(res, 'poisoned vs unpoisoned run (both with re-use)', a, b, bno): return
    # no re-use but poison: dead storage of other lines must not matter either
    h3, out3 = wsim.run_config(built, case, dict(base, c_reuse=False, poison=case['poison']), res, monitors=('M2',))
    for bno, (a, b) in enumerate(zip(ref, out3)):
        if not ports_equal(res, 'poisoned dead storage vs clean run (no re-use)', a, b, bno): return
    # the input slots are still intact after results were read
    mon = h1.mon
    for i in range(len(meta.snodes)):
        loc = int(meta.c_locs[meta.ppi_offset + i])
        if loc >= 0 and (mon.tag_prod[loc:loc + 3] != wsim.PPI_BASE + i).any():
            res.violate('dyn-input-clobbered', f'input slot {i} rows {loc}..{loc + 2} were overwritten during propagation')
            return


def execute(case):
    res = core.Result()
    m = case['mode']
    if m == 'heap': heapsim.execute_history(case, res)
    elif m == 'map': exec_map(case, res)
    elif m == 'big': exec_big(case, res)
    else: exec_dyn(case, res)
    return res


def shrinks(case):
    m = case['mode']
    if m == 'heap':
        yield from heapsim.shrinks_history(case)
    elif m == 'map':
        if len(case['knobs']) > 1:
            for j in range(len(case['knobs'])): yield dict(case, knobs=[case['knobs'][j]])
        for s in cgen.shrink_script(case['script']): yield dict(case, script=s)
        if case.get('caps'): yield dict(case, caps=None)
    elif m == 'dyn':
        yield from wavegen.shrink_wave_case(case)
        if case['cls'] == 'gpu': yield dict(case, cls='cpu')
        if case['strip_forks']: yield dict(case, strip_forks=False)


def sample(case):
    c = dict(case)
    if 'ops' in c: c['ops'] = c['ops'][:40]
    return c
