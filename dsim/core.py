"""Core of the deterministic-simulation harness: seed -> case, batch runner, digests,
minimisation, replay files, known findings, evidence files.

Rules kept everywhere (DESIGN.md 2.1):
  * run i of check P draws its *case* from random.Random(sha256(f"{VERIF_SEED}/{P}/{i}")),
    completely and before anything is executed; execution only consumes the explicit case;
  * logging / digesting / evidence never draw random numbers and never read a clock;
    wall time is measured only around whole batches.
Exit codes: 0 held, 1 violation (VIOLATION line printed), 2 harness error.
"""
import contextlib
import faulthandler
import hashlib
import importlib
import io
import json
import multiprocessing as mp
import os
import random
import subprocess
import sys
import time
import traceback
from concurrent.futures import ProcessPoolExecutor, TimeoutError as FutTimeout

VERIF = os.path.dirname(os.path.dirname(os.path.abspath(__file__)))
OUT = os.path.join(VERIF, 'out')
REPLAYS = os.path.join(OUT, 'replays')
EVIDENCE = os.path.join(VERIF, 'evidence')
KNOWN_FILE = os.path.join(VERIF, 'known_findings.json')
REPO_SRC = os.path.realpath(os.environ.get('KYUPY_VERIF_SRC') or '/repo/src')

ASSUMPTION_PURE_PYTHON = ('numba and CUDA are absent in this image: the library runs on its own MockNumba / MockCuda '
                          'fall-backs (pure Python); compiled kernels are out of reach')


class HarnessError(Exception):
    """Something is wrong with the harness or its coupling to the source (exit 2, never 1)."""


class AbortRun(Exception):
    """Raised by a monitor after it recorded a violation that makes continuing pointless (e.g. out-of-bounds access)."""
    def __init__(self, res, msg=''):
        super().__init__(msg)
        self.res = res


def import_kyupy():
    """Import kyupy with its import-time log line swallowed."""
    with contextlib.redirect_stdout(io.StringIO()):
        import kyupy  # noqa
        import kyupy.sim, kyupy.wave_sim, kyupy.logic_sim, kyupy.circuit, kyupy.logic, kyupy.bench, kyupy.techlib  # noqa
    p = os.path.realpath(kyupy.__file__)
    if not p.startswith(REPO_SRC):
        raise HarnessError(f'kyupy imported from {p}, expected {REPO_SRC}')
    return kyupy


def rng_for(seed, prop, i):
    h = hashlib.sha256(f'{seed}/{prop}/{i}'.encode()).digest()
    return random.Random(int.from_bytes(h[:16], 'big'))


def jdump(obj):
    return json.dumps(obj, sort_keys=True, separators=(',', ':'))


def digest_of(obj):
    return hashlib.sha256(jdump(obj).encode()).hexdigest()[:16]


class EventLog:
    """Ordered log of scheduler choices / accesses / observations of one run; only its digest is kept."""
    __slots__ = ('h', 'n')

    def __init__(self):
        self.h = hashlib.sha256()
        self.n = 0

    def add(self, *items):
        self.h.update(repr(items).encode())
        self.n += 1

    def add_array(self, name, a):
        import numpy as np
        a = np.ascontiguousarray(a)
        self.h.update(name.encode())
        self.h.update(str(a.shape).encode())
        self.h.update(a.tobytes())
        self.n += 1

    def digest(self):
        return self.h.hexdigest()[:16]


class Result:
    """Outcome of executing one case."""

    def __init__(self):
        self.violations = []   # list of dict(kind=..., detail=...)
        self.probes = {}       # reach probes: name -> count
        self.faults = {}       # fault kinds actually fired: name -> count
        self.counters = {}     # steps, launches, propagations, ...
        self.nontrivial = False
        self.log = EventLog()
        self.notes = {}        # facts used to match known findings

    def violate(self, kind, detail=''):
        if len(self.violations) < 20:
            self.violations.append({'kind': kind, 'detail': str(detail)[:600]})

    def probe(self, name, n=1):
        self.probes[name] = self.probes.get(name, 0) + n

    def fault(self, name, n=1):
        self.faults[name] = self.faults.get(name, 0) + n

    def count(self, name, n=1):
        self.counters[name] = self.counters.get(name, 0) + n

    def summary(self):
        return {'violations': self.violations, 'probes': self.probes, 'faults': self.faults, 'counters': self.counters,
                'nontrivial': bool(self.nontrivial), 'digest': self.log.digest(), 'notes': self.notes}


def in_repo_frame(tb):
    """True if the library crashed: going outwards from the innermost frame and skipping third-party / standard-library frames
    (NumPy raising on the arguments it was handed), the first frame that belongs to either side is library code."""
    frames = []
    while tb is not None:
        frames.append(os.path.realpath(tb.tb_frame.f_code.co_filename))
        tb = tb.tb_next
    for fn in reversed(frames):
        if fn.startswith(REPO_SRC): return True
        if fn.startswith(VERIF): return False
    return False


def recursion_in_repo(tb):
    """A RecursionError belongs to the side that recursed: the library iff most of the innermost frames are library code."""
    frames = []
    while tb is not None:
        frames.append(os.path.realpath(tb.tb_frame.f_code.co_filename))
        tb = tb.tb_next
    inner = frames[-60:]
    return sum(fn.startswith(REPO_SRC) for fn in inner) * 2 > len(inner)


def crash_kind(exc):
    """'crash:IndexError@sim.py' for an exception raised inside library code."""
    tb = exc.__traceback__
    last = None
    while tb is not None:
        fn = os.path.realpath(tb.tb_frame.f_code.co_filename)
        if fn.startswith(REPO_SRC): last = tb
        tb = tb.tb_next
    where = os.path.basename(last.tb_frame.f_code.co_filename) + ':' + last.tb_frame.f_code.co_name if last else '?'
    return f'crash:{type(exc).__name__}@{where}'


def execute_guarded(mod, case):
    """Run mod.execute(case); an exception whose innermost frame is library code becomes a violation,
    anything else is a harness error."""
    try:
        res = mod.execute(case)
    except HarnessError:
        raise
    except AbortRun as e:
        return e.res
    except RecursionError as e:
        if not recursion_in_repo(e.__traceback__): raise
        res = Result()
        res.violate(crash_kind(e), f'RecursionError: {e}')
    except Exception as e:  # noqa
        if in_repo_frame(e.__traceback__):
            res = Result()
            res.violate(crash_kind(e), f'{type(e).__name__}: {e}')
            res.notes['crash_tb'] = ''.join(traceback.format_exception(type(e), e, e.__traceback__)[-4:])[-800:]
        else:
            raise HarnessError('harness exception:\n' + ''.join(traceback.format_exception(type(e), e, e.__traceback__)))
    return res


def load_check(prop):
    return importlib.import_module('dsim.checks.' + prop.lower())


def _chunk(args):
    prop, seed, tier, start, stop = args
    faulthandler.enable()
    mod = load_check(prop)
    out = []
    for i in range(start, stop):
        rng = rng_for(seed, prop, i)
        case = mod.gen(rng, tier, i)
        try:
            res = execute_guarded(mod, case)
        except HarnessError as e:
            out.append({'i': i, 'harness_error': str(e)[-3000:]})
            continue
        s = res.summary()
        if hasattr(mod, 'finding_key'):      # decided where the run was executed: the parent need not re-execute every run of a known finding
            s['keys'] = {v['kind']: mod.finding_key(case, res, v['kind']) for v in res.violations}
        s['i'] = i
        s['case_digest'] = digest_of(case)
        out.append(s)
    return out


def load_known():
    if not os.path.exists(KNOWN_FILE): return []
    with open(KNOWN_FILE) as f:
        return json.load(f).get('findings', [])


def known_entry(prop, key):
    if key is None: return None
    for e in load_known():
        if e.get('property') == prop and e.get('status') == 'known' and e.get('key') == key:
            return e
    return None


def same_violation(res, kind):
    return any(v['kind'] == kind for v in res.violations)


def minimise(mod, case, kind, budget_s=45.0):
    """Greedy delta debugging driven by mod.shrinks(case); keeps a candidate iff the same violation kind persists."""
    if not hasattr(mod, 'shrinks'): return case, 0
    t_end = time.monotonic() + budget_s
    tried = 0
    improved = True
    while improved and time.monotonic() < t_end:
        improved = False
        for cand in mod.shrinks(case):
            if time.monotonic() >= t_end: break
            tried += 1
            try:
                r = execute_guarded(mod, cand)
            except HarnessError:
                continue
            if same_violation(r, kind):
                case = cand
                improved = True
                break
    return case, tried


def write_replay(prop, seed, i, case, res, kind, minimised_from=None):
    os.makedirs(REPLAYS, exist_ok=True)
    path = os.path.join(REPLAYS, f'{prop}-{seed}-{i}-{kind.replace("/", "_").replace(":", "_").replace("@", "_")[:40]}.json')
    v = next(v for v in res.violations if v['kind'] == kind)
    with open(path, 'w') as f:
        json.dump({'property': prop, 'seed': seed, 'run': i, 'kind': kind, 'violation': v, 'digest': res.log.digest(),
                   'notes': res.notes, 'minimised_from_digest': minimised_from, 'case': case}, f, indent=1, sort_keys=True)
    return path


def replay_file(path, quiet=False):
    """Re-execute a replay file in this interpreter. Returns (reproduced, same_digest, result)."""
    with open(path) as f:
        rp = json.load(f)
    mod = load_check(rp['property'])
    res = execute_guarded(mod, rp['case'])
    rep = same_violation(res, rp['kind'])
    same = res.log.digest() == rp['digest']
    if not quiet:
        for v in res.violations:
            print(f"  violation kind={v['kind']} {v['detail'][:300]}")
        print(f"  digest={res.log.digest()} recorded={rp['digest']} same={same}")
    return rep, same, res, rp


def replay_in_fresh_interpreter(path):
    """Replays must reproduce in a fresh process (other hash seed) with the same digest."""
    env = dict(os.environ)
    env['PYTHONHASHSEED'] = '12345'
    p = subprocess.run([sys.executable, '-m', 'dsim.main', '--replay', path, '--quiet'], cwd=VERIF, env=env,
                       stdout=subprocess.PIPE, stderr=subprocess.STDOUT, text=True, timeout=600)
    return p.returncode == 1 and 'REPLAY-OK' in p.stdout, p.stdout[-2000:]


def run_check(prop, tier, seed, runs=None, workers=None, wall_cap=None, write_evidence=True, verbose=True):
    import_kyupy()
    mod = load_check(prop)
    cfg = mod.TIERS[tier]
    runs = int(runs or os.environ.get('VERIF_RUNS') or cfg['runs'])
    workers = int(workers or os.environ.get('VERIF_WORKERS') or min(16, os.cpu_count() or 1))
    wall_cap = float(wall_cap or os.environ.get('VERIF_WALL_CAP') or cfg.get('wall_cap', 600))
    chunk = int(cfg.get('chunk', 25))
    # VERIF_FIRST=1: stop handing out further chunks once a run has violated (used by the seeded-change regression, never by
    # the registered commands; known findings count as violations here, so it is of no use for C10 and is ignored there)
    stop_at_first = os.environ.get('VERIF_FIRST') == '1' and not any(e.get('property') == prop and e.get('status') == 'known' for e in load_known())
    t0 = time.monotonic()
    print(f'# check {prop} tier={tier} VERIF_SEED={seed} runs={runs} workers={workers}', flush=True)

    jobs = [(prop, seed, tier, a, min(a + chunk, runs)) for a in range(0, runs, chunk)]
    summaries = []
    harness_errors = []
    truncated = False
    if workers <= 1:
        for j in jobs:
            if time.monotonic() - t0 > wall_cap: truncated = True; break
            summaries.extend(_chunk(j))
    else:
        ctx = mp.get_context('fork')
        with ProcessPoolExecutor(max_workers=workers, mp_context=ctx) as ex:
            pending = []
            it = iter(jobs)
            per_chunk_timeout = float(cfg.get('chunk_timeout', 900))
            try:
                # keep at most 3*workers chunks in flight so that the wall cap can stop dispatching
                for j in it:
                    pending.append(ex.submit(_chunk, j))
                    if len(pending) >= 3 * workers: break
                while pending:
                    f = pending.pop(0)
                    try:
                        summaries.extend(f.result(timeout=per_chunk_timeout))
                    except FutTimeout:
                        harness_errors.append('chunk timed out (hang?)')
                        for p in ex._processes.values(): p.kill()
                        break
                    if stop_at_first and any(x.get('violations') for x in summaries): wall_cap = 0.0      # (VERIF_FIRST=1, regression runs only)
                    if time.monotonic() - t0 <= wall_cap:
                        nxt = next(it, None)
                        if nxt is not None: pending.append(ex.submit(_chunk, nxt))
                    else:
                        if next(it, None) is not None: truncated = True
            except Exception as e:  # BrokenProcessPool etc
                harness_errors.append(f'pool failure: {type(e).__name__}: {e}')
    summaries.sort(key=lambda s: s['i'])
    for s in summaries:
        if 'harness_error' in s: harness_errors.append(f"run {s['i']}: {s['harness_error']}")
    ok_runs = [s for s in summaries if 'harness_error' not in s]
    batch_wall = time.monotonic() - t0

    # ---- aggregate
    probes, faults, counters = {}, {}, {}
    nontrivial_digests = set()
    run_digest = hashlib.sha256()
    for s in ok_runs:
        for k, v in s['probes'].items(): probes[k] = probes.get(k, 0) + v
        for k, v in s['faults'].items(): faults[k] = faults.get(k, 0) + v
        for k, v in s['counters'].items(): counters[k] = counters.get(k, 0) + v
        if s['nontrivial']: nontrivial_digests.add(s['case_digest'])
        run_digest.update(f"{s['i']}:{s['digest']};".encode())
    sched_digests = len(set(s['digest'] for s in ok_runs))

    # ---- violations: group by kind, take the first run of each kind
    first_by_kind = {}
    for s in ok_runs:
        for v in s['violations']:
            first_by_kind.setdefault(v['kind'], []).append(s['i'])
    n_viol_runs = sum(1 for s in ok_runs if s['violations'])
    reported, known_lines = [], []
    keys_by_run = {s['i']: s.get('keys', {}) for s in ok_runs if s['violations']}
    exit_code = 0
    not_reproduced, last_kind = 0, None
    unverified = []
    total_min_budget = float(cfg.get('min_budget_total', 100))     # wall budget for minimising, over all kinds
    t_min0 = time.monotonic()
    # kinds seen in most runs first; only the first three unknown kinds get a replay file, the rest is listed
    for kind, idxs in sorted(first_by_kind.items(), key=lambda kv: (-len(kv[1]), kv[0])):
        handled_unknown = 0
        known_seen = set()
        for i in idxs:
            wkey = keys_by_run.get(i, {}).get(kind)
            if wkey is not None and wkey in known_seen and known_entry(prop, wkey) is not None: continue      # same known finding as a run verified above
            case = mod.gen(rng_for(seed, prop, i), tier, i)
            res = execute_guarded(mod, case)
            if not same_violation(res, kind):
                # the same case gave another outcome in another process: either the harness is nondeterministic (the self-test
                # says it is not) or the library carries state from one object / run to the next; other runs of the kind are tried
                not_reproduced = not_reproduced + 1 if kind == last_kind else 1
                last_kind = kind
                if not_reproduced >= 8 or i == idxs[-1]:
                    unverified.append(f'kind {kind} run {i}: did not reproduce in the parent process ({not_reproduced} runs tried): the outcome depends on what ran before in the process')
                    break
                continue
            key = mod.finding_key(case, res, kind) if hasattr(mod, 'finding_key') else None
            ent = known_entry(prop, key)
            if ent is not None:
                if key not in known_seen:
                    known_seen.add(key)
                    known_lines.append(f"KNOWN-FINDING: property={prop} {ent['what']} [key={key}; e.g. run {i}, {len(idxs)} runs of kind {kind}]")
                continue
            if len(reported) >= 3:
                v = next(v for v in res.violations if v['kind'] == kind)
                print(f"# violation kind={kind} run={i} ({len(idxs)} runs) (further kind, no replay file written; ./check {prop} --one {i} re-executes it): {v['detail'][:300]}")
                exit_code = 1
                break
            # unknown violation: minimise, write replay, verify replay
            left = max(5.0, total_min_budget - (time.monotonic() - t_min0))
            small, tried = minimise(mod, case, kind, budget_s=min(float(cfg.get('min_budget', 40)), left))
            # a minimised case must not drift into a known finding
            rs = execute_guarded(mod, small)
            if not same_violation(rs, kind) or (hasattr(mod, 'finding_key') and known_entry(prop, mod.finding_key(small, rs, kind)) is not None):
                small, rs = case, res
            path = write_replay(prop, seed, i, small, rs, kind, minimised_from=digest_of(case))
            ok, outp = replay_in_fresh_interpreter(path)
            if not ok:
                # not reported: a violation is only claimed with a replay file that reproduces it in a fresh process
                unverified.append(f'kind {kind} run {i}: replay of {path} did not reproduce in a fresh interpreter:\n{outp}')
                break
            v = next(v for v in rs.violations if v['kind'] == kind)
            print(f"# violation kind={kind} run={i} ({len(idxs)} runs) minimise_tried={tried}: {v['detail'][:400]}")
            print(f'VIOLATION property={prop} replay={path}', flush=True)
            reported.append({'kind': kind, 'run': i, 'replay': path, 'runs_with_kind': len(idxs)})
            exit_code = 1
            handled_unknown += 1
            if handled_unknown >= 1: break
    # every listed known finding has a pinned witness case under findings/: it is re-executed on each run, so the finding is
    # named even when the seeded batch happens not to meet it; a witness that no longer fails is noted (and changes nothing)
    for ent in load_known():
        if ent.get('property') != prop or ent.get('status') != 'known' or not ent.get('witness'): continue
        if any(f"[key={ent['key']};" in l for l in known_lines): continue
        wpath = os.path.join(VERIF, ent['witness'])
        try:
            with open(wpath) as f: wcase = json.load(f)['case']
            wres = execute_guarded(mod, wcase)
            wkinds = [v['kind'] for v in wres.violations if hasattr(mod, 'finding_key') and mod.finding_key(wcase, wres, v['kind']) == ent['key']]
        except HarnessError as e:
            print(f"# note: the witness {ent['witness']} of known finding {ent['key']} could not be executed on this tree: {str(e)[:200]}")
            continue
        except (OSError, KeyError, ValueError) as e:
            harness_errors.append(f"witness {ent['witness']} of known finding {ent['key']} could not be executed: {type(e).__name__}: {e}")
            continue
        if wkinds: known_lines.append(f"KNOWN-FINDING: property={prop} {ent['what']} [key={ent['key']}; witness {ent['witness']}, kind {wkinds[0]}; not met by this batch]")
        else: print(f"# note: the witness {ent['witness']} of known finding {ent['key']} no longer shows it on this tree (repaired? then the entry should become 'fixed')")
    for l in known_lines: print(l)

    wall = time.monotonic() - t0
    # ---- evidence
    n_eval = len(ok_runs)
    samples = []
    for i in (0, 1):
        if i < runs: samples.append(mod.sample(mod.gen(rng_for(seed, prop, i), tier, i)) if hasattr(mod, 'sample') else mod.gen(rng_for(seed, prop, i), tier, i))
    zero_probes = [p for p in getattr(mod, 'EXPECTED_PROBES', []) if probes.get(p, 0) == 0]
    ev = {
        'property_id': prop, 'tier': tier, 'seed': int(seed), 'level': 'exploration',
        'coverage': {
            'evaluations': n_eval,
            'distinct_nontrivial': len(nontrivial_digests),
            'rule': mod.RULE,
            'samples': samples,
            'runs_per_hour': int(n_eval / max(batch_wall, 1e-6) * 3600),
            'seeds_per_hour': int(n_eval / max(batch_wall, 1e-6) * 3600),
            'simulated_time': 'none - the system has no clock; progress is counted in kernel launches, scheduler steps, propagations, cycles and history steps (see counters)',
            'counters': counters,
            'faults_fired': faults,
            'reach_probes': probes,
            'reach_probes_at_zero': zero_probes,
            'distinct_event_log_digests': sched_digests,
            'batch_digest': run_digest.hexdigest()[:16],
            'real_vs_stub': getattr(mod, 'REAL_VS_STUB', {}),
            'fault_free_tier': {k: v for k, v in counters.items() if k.startswith('faultfree_')},
            'runs_with_violation': n_viol_runs,
            'violations_reported': reported,
            'known_findings_seen': known_lines,
            'truncated_by_wall_cap': truncated,
            'workers': workers,
        },
        'assumptions': [ASSUMPTION_PURE_PYTHON] + list(getattr(mod, 'ASSUMPTIONS', [])),
        'wall_s': round(wall, 2),
        'violations': len(reported),
    }
    if unverified:
        # Outcomes that could not be reproduced in isolation. If at least one violation WAS verified (replay reproduced in a fresh
        # process) they are only listed; otherwise nothing of this run can be believed and the run ends as a harness error.
        print('# NOT REPRODUCED IN ISOLATION (outcome depends on process history - state carried between objects/runs?):')
        for h in unverified[:5]: print('#   ' + h.replace('\n', '\n#   ')[:1200])
        if not reported: harness_errors.extend(unverified)
    if harness_errors:
        print('# HARNESS ERROR(S):')
        for h in harness_errors[:5]: print('#   ' + h.replace('\n', '\n#   ')[:3000])
        # a violation whose replay reproduced in a fresh process stands (exit 1) even if other runs broke the harness
        # (a library that is broken badly enough can make harness code fail); without one, nothing of the run is believed
        if not reported: exit_code = 2
    if write_evidence and not harness_errors:
        os.makedirs(EVIDENCE, exist_ok=True)
        with open(os.path.join(EVIDENCE, f'{prop}.json'), 'w') as f:
            json.dump(ev, f, indent=1, sort_keys=True)
    if verbose:
        print(f'# {prop}: runs={n_eval} nontrivial_distinct={len(nontrivial_digests)} viol_runs={n_viol_runs} '
              f'reported={len(reported)} known={len(known_lines)} wall={wall:.1f}s ({ev["coverage"]["runs_per_hour"]}/h)'
              f'{" TRUNCATED" if truncated else ""}')
        print(f'# probes={jdump(probes)}')
        print(f'# faults={jdump(faults)}')
        if zero_probes: print(f'# WARNING reach probes at zero: {zero_probes}')
        print(f'# batch_digest={ev["coverage"]["batch_digest"]}')
    return exit_code, ev
