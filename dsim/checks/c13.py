"""C13 - capture results and switching-activity counts faithfully summarise waveforms.

  overflow indicator (fault clause)  F-cap run vs paired capacity-64 run: wherever s[10] is clear the output waveform is
                                     entry-for-entry the unlimited one (clear = acknowledgement of exactness)
  accumulated activity (schedule)    abuf == sum over ops of weighted RefWave rises/falls of the waveform snapshot taken when
                                     the op's thread finishes; cumulative over reuse batches; only lanes < k; CPU, mock-GPU under
                                     seeded thread orders, real-thread interleaving (atomic.add is one step), repository launcher
  capture summary (final state)      s[3..8], s[10] == what the output waveform encodes, capture times on / between / exactly at
                                     transition times and +-inf; CPU loop and GPU capture kernel
"""
import numpy as np

from .. import core, refmodels, wavegen, waveoracle, wsim
from .. import gen as cgen

PROP = 'C13'
TIERS = {
    'quick': {'runs': 5000, 'chunk': 15, 'wall_cap': 80, 'min_budget': 30},
    'thorough': {'runs': 150000, 'chunk': 40, 'wall_cap': 850, 'min_budget': 60},
}
RULE = ('case = seeded glitch-prone circuit + skewed delays + capacity fault plan + accumulation table (shared accumulators, zero/unequal weights, -1 rows) + 1-3 reuse batches with capture times '
        'selected on/around actual output transitions + 2-4 executions (CPU; mock-GPU with seeded thread order and grid; repository launcher; sometimes real-thread interleaving; sometimes first-k lanes); '
        'non-trivial iff an overflow occurred and at least one clear-flag output was compared with the unlimited run, or >= 2 ops of one level fed the same accumulator; distinct = distinct case digests')
REAL_VS_STUB = {'real': ['kyupy.wave_sim: _wave_eval, level_eval_cpu, wave_eval_gpu (accumulation), wave_capture_cpu, wave_capture_gpu', 'kyupy.sim.SimOps (a_ctrl -> op columns 6..8)', 'MockCuda launcher + atomic.add'],
                'stub': ['CUDA runtime -> SimCuda (order / interleave); atomic.add is one indivisible scheduler step']}
ASSUMPTIONS = ['abuf is a 32-bit integer buffer; expected and actual sums are compared modulo 2**32 (weights up to 2**24+1 are generated)', 'sd = 0 (s[8]/s[9] under capture-time uncertainty are outside the statement)', '"unlimited capacity" = 64 entries per waveform; cases in which even that overflows are skipped for the indicator clause and counted',
               'accumulation tables are passed with len(lines)+3 rows (the documented len(lines) rows raise IndexError for gates without output line; recorded in DESIGN.md, outside this property)']
EXPECTED_PROBES = ['nonmonotonic_output_captured', 'simulator_restored', 'overflow_occurred', 'clear_flag_compared', 'flag_set_seen', 'shared_accumulator_in_level', 'interleave_run', 'capture_time_at_transition', 'k_lt_sims', 'capture_after_restricted_propagation']


def gen(rng, tier, i):
    script = cgen.gen_script(rng, max_gates=rng.choice([6, 12, 24]), max_in=5, max_ff=2, p_glitchy=rng.choice([0.3, 0.5, 0.7]), want_dangling=rng.random() < 0.15)
    if rng.random() < 0.03: script = {'net': 'b01', 'gates': [0] * 99}
    sims = rng.randint(1, 4)
    r = rng.random()
    if r < 0.5: caps = {'default': 16, 'vec': [rng.choice([4, 4, 8, 32, 64]) for _ in range(rng.randint(2, 13))]}
    elif r < 0.7: caps = {'default': 4, 'vec': None}
    else: caps = {'default': rng.choice([8, 16, 64]), 'vec': None}
    batches = wavegen.gen_batches(rng, n_max=3, sims=sims, p_custom=0.7, p_k=0.0, p_time=0.0)
    for b in batches:
        r = rng.random()
        if r < 0.5: b['time_sel'] = [rng.randrange(64), rng.randrange(8), rng.randrange(8), rng.choice([0, 0, 0.25, -0.25, 1, -1])]
        elif r < 0.65: b['time'] = rng.choice([0, 2.5, 10, 1000, float(wsim.TMIN), float(wsim.TMAX)])
        if r < 0.65: b['time_type'] = rng.choice(['f32', 'f32', 'f64', 'py'])      # the same float32 value handed over as NumPy float32 / float64 or Python float
    case = {'script': script, 'sims': sims, 'delays': wavegen.gen_delays(rng, skew=rng.choice(['wild', 'wild', 'wild', 'wild', 'mild'])), 'caps': caps, 'argforms': wavegen.gen_argforms(rng), 'batches': batches,
            'actrl': wavegen.gen_actrl(rng, p=0.8), 'knobs': {'c_reuse': rng.random() < 0.4, 'strip_forks': rng.random() < 0.4}, 'keep_caps': True}
    cfgs = [{'cls': 'cpu'}]
    cfgs.append({'cls': 'gpu', 'sched': wavegen.gen_order_sched(rng), 'block': wavegen.gen_block(rng)})
    if rng.random() < 0.3: cfgs.append({'cls': 'gpu', 'sched': {'mode': 'repo'}, 'block': wavegen.gen_block(rng)})
    if rng.random() < 0.2 and sims <= 3 and len(script['gates']) <= 12:
        cfgs.append({'cls': 'gpu', 'sched': wavegen.gen_interleave_sched(rng), 'block': wavegen.gen_block(rng, small=True)})
    if rng.random() < 0.25 and sims > 1:
        cfgs.append({'cls': rng.choice(['cpu', 'gpu']), 'k': rng.randint(1, sims - 1), 'block': wavegen.gen_block(rng)})
        # restriction only in later batches: the lanes beyond k keep the waveforms of the earlier full propagation, and a capture (at another time) must still summarise them
        if len(batches) > 1 and rng.random() < 0.6: cfgs[-1]['k_only_batches'] = list(range(1, len(batches)))
    if len(batches) > 1 and rng.random() < 0.25:
        cfgs.append({'cls': rng.choice(['cpu', 'gpu']), 'restore_after': [0], 'block': wavegen.gen_block(rng)})      # pickle round trip of the simulator after batch 0
    case['cfgs'] = cfgs
    return case


def actrl_row(case, z, n_lines):
    ac = case.get('actrl')
    if not ac or z >= n_lines: return (-1, 0, 0)
    return tuple(ac['rows'][z % len(ac['rows'])])


def expected_abuf(case, h, outs):
    """Cumulative expectation after each batch from the waveforms as produced."""
    meta = h.meta
    shape = outs[0]['abuf'].shape
    rows = shape[0]
    for o in outs:
        for (row, lane), (op, w) in o['produced'].items():
            rows = max(rows, actrl_row(case, op[1], meta.n_lines)[0] + 1)
    acc = np.zeros((rows, max(shape[1], int(h.sim.sims))), dtype=np.int64)     # may have more rows / columns than the buffer the library allocated (1x1 when nothing accumulates)
    per_batch = []
    for o in outs:
        for (row, lane), (op, w) in o['produced'].items():
            a, wr, wf = actrl_row(case, op[1], meta.n_lines)
            if a < 0: continue
            acc[a, lane] += w['rises'] * wr + w['falls'] * wf
        per_batch.append(acc.copy())
    return per_batch


def execute(case):
    res = core.Result()
    built = cgen.build(case['script'])
    knobs = case['knobs']
    ample = None
    for ci, cfg0 in enumerate(case['cfgs']):
        cfg = dict(cfg0, snapshots=True, **knobs)
        label = f"cfg{ci}:{cfg['cls']}:{(cfg.get('sched') or {}).get('mode', 'cpu')}"
        h, outs = wsim.run_config(built, case, cfg, res, monitors=())
        meta = h.meta
        if (cfg.get('sched') or {}).get('mode') == 'interleave': res.probe('interleave_run'); res.fault('F-int')
        if cfg['cls'] == 'gpu': res.fault('F-ord')
        if cfg.get('k'): res.probe('k_lt_sims'); res.fault('F-lanes-k')
        if cfg.get('restore_after'): res.probe('simulator_restored')
        res.log.add(label, [wsim.crc(o['s'][3:8]) for o in outs], [wsim.crc(o['abuf']) for o in outs])
        # ---- capture summary
        for bno, o in enumerate(outs):
            # every lane, also after a propagation restricted to the first k: the capture reads the waveform memory as it stands (lanes never simulated hold no terminated waveform and are skipped by the oracle)
            if cfg.get('k') and bno in (cfg.get('k_only_batches') or range(len(outs))): res.probe('capture_after_restricted_propagation')
            if not waveoracle.check_capture_summary(h, o, res, label=f'{label} batch {bno}: '): return res
            if o['time'] is not None and case['batches'][bno].get('time_sel') and case['batches'][bno]['time_sel'][3] == 0: res.probe('capture_time_at_transition')
        # ---- accumulated switching activity
        if case.get('actrl'):
            exp = expected_abuf(case, h, outs)
            for bno, (o, e) in enumerate(zip(outs, exp)):
                if o['abuf'].ndim != 2 or (o['abuf'].shape[1] != e.shape[1] and (e != 0).any()):
                    res.violate('abuf-mismatch', f'{label} batch {bno}: abuf has shape {o["abuf"].shape}, expected one column per lane ({e.shape[1]})')
                    return res
                got = np.zeros(e.shape, dtype=np.int64)
                r0, c0 = min(e.shape[0], o['abuf'].shape[0]), min(e.shape[1], o['abuf'].shape[1])
                got[:r0, :c0] = o['abuf'][:r0, :c0].astype(np.int64)
                if ((got - e) % (1 << 32)).any():      # abuf is a 32-bit integer buffer: sums are compared modulo 2**32
                    d = np.argwhere((got - e) % (1 << 32))[0]
                    res.violate('abuf-mismatch', f'{label} batch {bno}: abuf[{d[0]},{d[1]}] = {got[d[0], d[1]] if d[0] < o["abuf"].shape[0] else "(no such row: abuf has %d rows)" % o["abuf"].shape[0]}, '
                                                 f'weighted transition count of the produced waveforms = {e[d[0], d[1]]}')
                    return res
            # probe: two ops of one level share an accumulator
            for a, b in zip(meta.level_starts, meta.level_stops):
                accs = [actrl_row(case, int(op[1]), meta.n_lines)[0] for op in meta.ops[a:b]]
                accs = [x for x in accs if x >= 0]
                if len(accs) != len(set(accs)): res.probe('shared_accumulator_in_level'); res.nontrivial = True; break
        # ---- overflow indicator vs unlimited capacity (same knobs, same class, no k)
        if ci == 0:
            ovl = any(waveoracle.any_overflow(o) for o in outs)
            faulted = case['caps']['default'] < 64 or case['caps'].get('vec') is not None
            if ovl: res.probe('overflow_occurred')
            if faulted:
                # the paired run is made whenever capacity was restricted - not only when the implementation *says* it overflowed
                res.fault('F-cap')
                h2, outs2 = wsim.run_config(built, case, dict(cfg, caps={'default': 64, 'vec': None}), res, monitors=())
                res.count('faultfree_runs')
                if any(waveoracle.any_overflow(o) for o in outs2):
                    res.probe('ample_run_overflowed')
                else:
                    for bno, (o, u) in enumerate(zip(outs, outs2)):
                        for i, l in meta.captured_lines():
                            a, b = meta.range_of(l)
                            a2, b2 = h2.meta.range_of(l)
                            if a < 0 or a2 < 0: continue
                            for lane in range(o['c'].shape[1]):
                                if o['s'][10, i, lane] != 0: res.probe('flag_set_seen'); continue
                                w = refmodels.wave_summary(o['c'][a:b, lane])
                                w2 = refmodels.wave_summary(u['c'][a2:b2, lane])
                                res.probe('clear_flag_compared'); res.nontrivial = True
                                if [float(t) for t in w['entries']] != [float(t) for t in w2['entries']]:
                                    res.violate('ovl-clear-mismatch', f'batch {bno} output slot {i} lane {lane}: overflow indicator clear but waveform {[float(t) for t in w["entries"]][:10]} differs from the '
                                                                      f'unlimited-capacity waveform {[float(t) for t in w2["entries"]][:10]}')
                                    return res
        if res.violations: return res
    return res


def shrinks(case):
    if len(case['cfgs']) > 1:
        for j in range(len(case['cfgs'])): yield dict(case, cfgs=[case['cfgs'][j]])
    yield from wavegen.shrink_wave_case(case)
    for k in ('c_reuse', 'strip_forks'):
        if case['knobs'][k]: yield dict(case, knobs=dict(case['knobs'], **{k: False}))
    for j, cfg in enumerate(case['cfgs']):
        def rep(nc): return dict(case, cfgs=case['cfgs'][:j] + [nc] + case['cfgs'][j + 1:])
        if (cfg.get('sched') or {}).get('mode') == 'interleave': yield rep(dict(cfg, sched={'mode': 'order', 'kind': 'reversed'}))
        if cfg.get('block') and cfg['block'] != [1, 1]: yield rep(dict(cfg, block=[1, 1]))
        if cfg.get('k'): yield rep({k: v for k, v in cfg.items() if k != 'k'})
    for j, b in enumerate(case['batches']):
        if b.get('time_sel') is not None: yield dict(case, batches=case['batches'][:j] + [{k: v for k, v in b.items() if k != 'time_sel'}] + case['batches'][j + 1:])


def sample(case):
    c = dict(case)
    c['cfgs'] = [dict(cfg, sched=dict(cfg['sched'], choices=cfg['sched']['choices'][:40])) if (cfg.get('sched') or {}).get('choices') else cfg for cfg in case['cfgs']]
    return c
