"""Oracles over the recorded state of a waveform-simulation run: RefEval/RefWave checks shared by C03 and C13."""
import numpy as np

from . import refmodels
from .refmodels import TMAX, TMAX_OVL, TMIN


def expected_line_values(h, inputs):
    """RefEval of initial and final input values -> per line index (init bitmask, final bitmask)."""
    ev = refmodels.RefEval(h.circuit)
    init, final = inputs
    nl = h.sim.sims if hasattr(h.sim, 'sims') else 64
    M = (1 << nl) - 1
    li = ev.eval_lines(init, M)
    lf = ev.eval_lines(final, M)
    return {l.index: (li[id(l)], lf[id(l)]) for l in h.circuit.lines}, ev


def check_values(h, out, res, kind_prefix, lanes=None, label=''):
    """C03 oracle on one batch outcome: every produced waveform (snapshot at production time) and every stored waveform
    encodes RefEval(initial inputs) as first entry and RefEval(final inputs) as parity; s[3]/s[6] report the same;
    every waveform is terminated inside its capacity."""
    meta = h.meta
    exp, ev = expected_line_values(h, out['inputs'])
    nsim = out['c'].shape[1]
    lanes = range(nsim) if lanes is None else lanes
    checked = 0
    for l in range(meta.n_lines):
        if meta.c_locs[l] < 0:
            res.violate(kind_prefix + 'line-not-simulated', f'{label}line {l} ({h.circuit.lines[l].driver.name} -> {h.circuit.lines[l].reader.name}) has no waveform memory: its driver was never scheduled')
            return False
    # waveforms as produced (works with memory re-use too)
    for (row, lane), (op, w) in sorted(out['produced'].items(), key=lambda kv: (str(kv[0][0]), kv[0][1])):
        z = op[1]
        if z >= meta.n_lines or lane not in lanes: continue
        ei, ef = (exp[z][0] >> lane) & 1, (exp[z][1] >> lane) & 1
        if not w['terminated']:
            res.violate(kind_prefix + 'unterminated', f'{label}line {z} lane {lane}: no terminator inside capacity {meta.c_caps[z]}'); return False
        if w['init'] != ei:
            res.violate(kind_prefix + 'initial-value', f'{label}line {z} lane {lane}: waveform starts at {w["init"]}, Boolean function of the initial input values is {ei}; entries {[float(t) for t in w["entries"]][:8]}'); return False
        if w['final'] != ef:
            res.violate(kind_prefix + 'final-value', f'{label}line {z} lane {lane}: parity says {w["final"]}, Boolean function of the final input values is {ef}; entries {[float(t) for t in w["entries"]][:8]} ovl={w["ovl"]}'); return False
        checked += 1
    # stored waveforms of captured lines and what capture reports
    s = out['s']
    for i, l in meta.captured_lines():
        a, b = meta.range_of(l)
        if a < 0: continue
        for lane in lanes:
            w = refmodels.wave_summary(out['c'][a:b, lane])
            ei, ef = (exp[l][0] >> lane) & 1, (exp[l][1] >> lane) & 1
            if not w['terminated'] or w['init'] != ei or w['final'] != ef:
                res.violate(kind_prefix + 'output-waveform', f'{label}output {i} (line {l}) lane {lane}: stored waveform init/final {w["init"]}/{w["final"]} vs expected {ei}/{ef}'); return False
            if int(s[3, i, lane]) != ei or s[3, i, lane] not in (0.0, 1.0):
                res.violate(kind_prefix + 'captured-initial', f'{label}s[3] of slot {i} lane {lane} = {s[3, i, lane]}, expected {ei}'); return False
            if int(s[6, i, lane]) != ef or s[6, i, lane] not in (0.0, 1.0):
                res.violate(kind_prefix + 'captured-final', f'{label}s[6] of slot {i} lane {lane} = {s[6, i, lane]}, expected {ef}'); return False
            checked += 1
    res.count('waveforms_checked', checked)
    return True


def any_overflow(out):
    return bool((out['s'][10] != 0).any()) or any(w['ovl'] for (_r, _l), (_op, w) in out['produced'].items())


def check_capture_summary(h, out, res, label=''):
    """C13 capture clause: s[3..8], s[10] equal what the output waveform (as it stands after propagation) encodes."""
    meta = h.meta
    s = out['s']
    T = out['time']
    T = TMAX if T is None else np.float32(T)
    n = 0
    for i, l in meta.captured_lines():
        a, b = meta.range_of(l)
        if a < 0: continue
        for lane in range(out['c'].shape[1]):
            w = refmodels.wave_summary(out['c'][a:b, lane])
            if not w['terminated']: continue
            val = refmodels.value_before(w['entries'], T)
            fin_ = [float(t) for t in w['entries'] if t > TMIN]
            if any(fin_[j] >= fin_[j + 1] for j in range(len(fin_) - 1)): res.probe('nonmonotonic_output_captured')
            exp = [w['init'], w['eat'], w['lst'], w['final'], val, val]
            got = [s[3 + j, i, lane] for j in range(6)]
            names = ['initial value s[3]', 'earliest arrival s[4]', 'latest stabilisation s[5]', 'final value s[6]', 'capture value s[7]', 'sampled capture s[8]']
            for j in range(6):
                if np.float32(exp[j]) != np.float32(got[j]):
                    res.violate('capture-summary', f'{label}slot {i} lane {lane}: {names[j]} = {got[j]}, waveform {[float(t) for t in w["entries"]][:10]} (capture time {float(T)}) encodes {float(exp[j])}')
                    return False
            if int(s[10, i, lane] != 0) != w['ovl']:
                res.violate('capture-summary', f'{label}slot {i} lane {lane}: overflow indicator s[10] = {s[10, i, lane]}, terminator is {"TMAX_OVL" if w["ovl"] else "TMAX"}')
                return False
            n += 1
    res.count('captures_checked', n)
    return True
