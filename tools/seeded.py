#!/usr/bin/env python3
"""Confirm a sub-agent's breaking change in its scratch worktree and run the checks against it.

  tools/seeded.py confirm C07 A          -> in /tmp/wt_C07: demo passes clean, fails patched, test suite passes patched
  tools/seeded.py detect  C07A [C07 ...] -> git -C /repo apply seeded/C07A/patch.diff; run quick checks; git checkout -- .
Results are merged into /verif/seeded/<id>/meta.json.
"""
import json
import os
import re
import shutil
import subprocess
import sys

VERIF = os.path.dirname(os.path.dirname(os.path.abspath(__file__)))
PY = '/venv/bin/python'


def sh(cmd, cwd=None, env=None, timeout=1800):
    p = subprocess.run(cmd, shell=True, cwd=cwd, env=env, stdout=subprocess.PIPE, stderr=subprocess.STDOUT, text=True, timeout=timeout)
    return p.returncode, p.stdout


def confirm(prop, var, wt_prefix='/tmp/wt_', sid=None):
    wt = f'{wt_prefix}{prop}'
    sd = f'{wt}/_seeded'
    sid = sid or f'{prop}{var}'
    env = dict(os.environ, PYTHONPATH=f'{wt}/src')
    out = {'id': sid, 'property': prop}
    sh('git checkout -- src', cwd=wt)
    rc, o = sh(f'{PY} {sd}/demo{var}.py', cwd=sd, env=env)
    out['demo_clean_exit'] = rc
    rc, o = sh(f'git apply --check {sd}/patch{var}.diff && git apply {sd}/patch{var}.diff', cwd=wt)
    out['patch_applies'] = rc == 0
    rc, o = sh(f'{PY} {sd}/demo{var}.py', cwd=sd, env=env)
    out['demo_patched_exit'] = rc
    out['demo_patched_tail'] = o[-400:]
    rc, o = sh(f'{PY} -m pytest -q -p no:cacheprovider --timeout=900 tests', cwd=wt, env=env)
    m = re.search(r'(\d+) passed', o)
    out['tests_patched'] = o.strip().splitlines()[-1][:120] if o.strip() else ''
    out['tests_pass_patched'] = rc == 0 and bool(m) and int(m.group(1)) == 31
    sh('git checkout -- src', cwd=wt)
    out['confirmed'] = out['demo_clean_exit'] == 0 and out['patch_applies'] and out['demo_patched_exit'] != 0 and out['tests_pass_patched']
    dst = f'{VERIF}/seeded/{sid}'
    os.makedirs(dst, exist_ok=True)
    if out['confirmed']:
        shutil.copy(f'{sd}/patch{var}.diff', f'{dst}/patch.diff')
        shutil.copy(f'{sd}/demo{var}.py', f'{dst}/demo.py')
        notes = open(f'{sd}/notes.md').read() if os.path.exists(f'{sd}/notes.md') else ''
        open(f'{dst}/notes.md', 'w').write(notes)
    meta_p = f'{dst}/meta.json'
    meta = json.load(open(meta_p)) if os.path.exists(meta_p) else {}
    meta.update({'id': sid, 'breaks_property': prop, 'confirmation': out,
                 'what_i_ran': [f'PYTHONPATH={wt}/src {PY} demo{var}.py on the clean worktree (exit {out["demo_clean_exit"]})',
                                f'git apply patch{var}.diff; demo (exit {out["demo_patched_exit"]}); full pinned test suite ({out["tests_patched"]})']})
    json.dump(meta, open(meta_p, 'w'), indent=1)
    print(json.dumps(out))
    return out


def detect_copy(sid, props):
    """Like detect, but on a scratch copy of /repo/src under $TMPDIR (safe while background runs use /repo)."""
    import tempfile
    dst = f'{VERIF}/seeded/{sid}'
    tmp = tempfile.mkdtemp(prefix='kyupy_seeded_')
    res = {}
    try:
        shutil.copytree('/repo/src', f'{tmp}/src')
        rc, o = sh(f'patch -p1 -d {tmp} < {dst}/patch.diff')
        if rc != 0:
            print('patch does not apply: ' + o); return 2
        env = dict(os.environ, KYUPY_VERIF_SRC=f'{tmp}/src', PYTHONPATH=f'{VERIF}:{tmp}/src', PYTHONHASHSEED='0')
        for p in props:
            rc, o = sh(f'{PY} -m dsim.main {p} --tier quick --no-evidence', cwd=VERIF, env=env)
            kinds = sorted(set(re.findall(r'# violation kind=(\S+)', o)))
            nv = re.findall(r'viol_runs=(\d+)', o)
            runs = re.findall(r'runs=(\d+)', o)
            res[p] = {'exit': rc, 'caught': rc == 1 and f'VIOLATION property={p}' in o, 'kinds': kinds, 'viol_runs': int(nv[0]) if nv else None, 'runs': int(runs[0]) if runs else None, 'on': 'scratch copy of /repo/src'}
            m = re.search(r'VIOLATION property=%s replay=(\S+)' % p, o)
            if m and p == sid[:3] and os.path.exists(m.group(1)):
                shutil.copy(m.group(1), f'{dst}/replay.json')
                # the minimised replay must reproduce on the patched copy and must NOT reproduce on the unchanged tree
                rc1, o1 = sh(f'{PY} -m dsim.main --replay {dst}/replay.json --quiet', cwd=VERIF, env=env)
                rc2, o2 = sh(f'./check --replay {dst}/replay.json --quiet', cwd=VERIF)
                res[p]['replay_reproduces_with_change'] = rc1 == 1
                res[p]['replay_quiet_on_unchanged_tree'] = rc2 == 0
            print(sid, 'vs', p, res[p], flush=True)
    finally:
        shutil.rmtree(tmp, ignore_errors=True)
    meta_p = f'{dst}/meta.json'
    meta = json.load(open(meta_p)) if os.path.exists(meta_p) else {}
    meta.setdefault('detection', {}).update(res)
    json.dump(meta, open(meta_p, 'w'), indent=1)
    return 0


def detect(sid, props):
    dst = f'{VERIF}/seeded/{sid}'
    patch = f'{dst}/patch.diff'
    rc, o = sh('git -C /repo status --porcelain')
    if o.strip():
        print('REFUSING: /repo has uncommitted changes:\n' + o); return 2
    rc, o = sh(f'git -C /repo apply {patch}')
    if rc != 0:
        print('patch does not apply to /repo: ' + o); return 2
    res = {}
    try:
        for p in props:
            rc, o = sh(f'./check {p} --tier quick --no-evidence', cwd=VERIF)
            kinds = sorted(set(re.findall(r'# violation kind=(\S+)', o)))
            nv = re.findall(r'viol_runs=(\d+)', o)
            runs = re.findall(r'runs=(\d+)', o)
            res[p] = {'exit': rc, 'caught': rc == 1 and f'VIOLATION property={p}' in o, 'kinds': kinds, 'viol_runs': int(nv[0]) if nv else None, 'runs': int(runs[0]) if runs else None}
            print(sid, 'vs', p, res[p], flush=True)
    finally:
        sh('git -C /repo checkout -- .')
    meta_p = f'{dst}/meta.json'
    meta = json.load(open(meta_p)) if os.path.exists(meta_p) else {}
    meta.setdefault('detection', {}).update(res)
    json.dump(meta, open(meta_p, 'w'), indent=1)
    return 0


if __name__ == '__main__':
    if sys.argv[1] == 'confirm': confirm(sys.argv[2], sys.argv[3], *(sys.argv[4:6]))
    elif sys.argv[1] == 'detect': sys.exit(detect(sys.argv[2], sys.argv[3:]))
    elif sys.argv[1] == 'detect-copy': sys.exit(detect_copy(sys.argv[2], sys.argv[3:]))
