import numpy as np

"""C08, allocator sentence: alloc/free histories on kyupy.sim.Heap against RefHeap (a set of live intervals
plus a running high-water mark).  No allocation policy is assumed."""


class RefHeap:
    def __init__(self):
        self.live = {}       # loc -> requested size
        self.order = []      # locs in allocation order
        self.hwm = 0         # max loc+size ever returned
        self.extent_max = 0  # running max of the tiled extent

    def on_alloc(self, loc, size):
        self.live[loc] = size
        self.order.append(loc)
        self.hwm = max(self.hwm, loc + size)

    def on_free(self, loc):
        del self.live[loc]
        self.order.remove(loc)


def gen_history(rng, tier):
    shape = rng.choice(['uniform', 'uniform', 'burst', 'adversarial', 'equal'])
    n = rng.choice([3, 6, 12, 25, 50, 100, 200] if tier == 'quick' else [6, 25, 100, 200, 400, 800, 3000])
    sizes_pool = rng.choice([[4, 8, 16], [4, 4, 8, 16, 32, 64], list(range(1, 65)), [1, 1, 1, 2, 3], [4], [1, 2, 4, 8, 16, 32, 64], [4, 70000, 1 << 20, 3], [100, 127, 128, 129, 255, 256, 257]])
    ops = []
    live = 0

    def size(): return rng.choice(sizes_pool)
    if shape in ('uniform', 'equal'):
        if shape == 'equal': sizes_pool = [rng.choice([1, 4, 8])]
        p_alloc = rng.choice([0.45, 0.55, 0.7])
        for _ in range(n):
            if live == 0 or rng.random() < p_alloc:
                ops.append(['a', size()]); live += 1
            else:
                ops.append([rng.choice(['fo', 'fa']), rng.randrange(1 << 16)]); live -= 1
    elif shape == 'burst':  # SimOps-like: a level allocates, then frees at the boundary
        while len(ops) < n:
            for _ in range(rng.randint(1, 8)):
                ops.append(['a', size()]); live += 1
            for _ in range(rng.randint(0, min(live, 8))):
                ops.append([rng.choice(['fo', 'fa']), rng.randrange(1 << 16)]); live -= 1
            if rng.random() < 0.1:      # drain completely in mid-history: the heap shrinks to zero and grows again
                for _ in range(live): ops.append(['fa', -1])
                live = 0
    else:  # adversarial: fill, then free in address order / reverse / every other / middle-out, then refill
        k = max(2, n // 3)
        for _ in range(k):
            ops.append(['a', size()]); live += 1
        pat = rng.choice(['asc', 'desc', 'alt', 'alt2', 'mid', 'pair'])
        if pat == 'asc':
            for _ in range(k - rng.randint(0, 2)): ops.append(['fa', 0]); live -= 1
        elif pat == 'desc':
            for _ in range(k - rng.randint(0, 2)): ops.append(['fa', -1]); live -= 1
        elif pat == 'alt':   # every other chunk, then the ones in between
            j = 0
            for _ in range(k // 2): ops.append(['fa', j]); live -= 1; j += 1
            for _ in range(rng.randint(0, live)): ops.append(['fa', rng.randrange(1 << 16)]); live -= 1
        elif pat == 'alt2':  # every other, then allocate small sizes into the holes
            j = 0
            for _ in range(k // 2): ops.append(['fa', j]); live -= 1; j += 1
            for _ in range(k): ops.append(['a', rng.choice([1, 2, 4, size()])]); live += 1
        elif pat == 'pair':  # free two neighbours, then ask for exactly their sum (only a coalesced chunk fits)
            s0 = size()
            ops[:] = [['a', s0] for _ in range(k)]; live = k
            for _ in range(max(1, k // 4)):
                j = rng.randrange(max(1, live - 1))
                ops.append(['fa', j]); ops.append(['fa', j]); live -= 2
                ops.append(['a', 2 * s0]); live += 1
        else:
            for _ in range(k - 1): ops.append(['fa', live // 2]); live -= 1
        for _ in range(max(0, n - len(ops))):
            if live == 0 or rng.random() < 0.5:
                ops.append(['a', size()]); live += 1
            else:
                ops.append(['fa', rng.randrange(1 << 16)]); live -= 1
    if rng.random() < 0.5:  # drain completely at the end
        for _ in range(live): ops.append([rng.choice(['fo', 'fa']), rng.randrange(1 << 16)])
    prelude = [['a', size()] for _ in range(rng.randint(2, 5))] + [['fa', rng.randrange(8)] for _ in range(rng.randint(1, 3))] if rng.random() < 0.5 else []
    return {'mode': 'heap', 'shape': shape, 'ops': ops, 'prelude': prelude, 'size_dtype': rng.choice(['int', 'int', 'int64', 'uint32', 'uint16', 'uint8', 'int8'])}


def check_tables(h, ref, res, step):
    """Invariants after every step. Returns False at the first violation."""
    chunks = h.chunks
    released = list(h.released)
    # released: sorted, no duplicates, subset of chunks
    if any(released[i] >= released[i + 1] for i in range(len(released) - 1)):
        res.violate('heap-released-unsorted', f'step {step}: released={released[:12]}'); return False
    for r in released:
        if r not in chunks:
            res.violate('heap-released-not-a-chunk', f'step {step}: released start {r} is no chunk'); return False
    # tiling of [0, current_size)
    pos = 0
    prev_free = False
    rel = set(released)
    for loc in sorted(chunks):
        sz = chunks[loc]
        if sz <= 0:
            res.violate('heap-tiling', f'step {step}: chunk {loc} has size {sz}'); return False
        if loc != pos:
            res.violate('heap-tiling', f'step {step}: chunk at {loc} but previous chunk ends at {pos} ({"gap" if loc > pos else "overlap"})'); return False
        pos = loc + sz
        is_free = loc in rel
        if is_free and prev_free:
            res.violate('heap-not-coalesced', f'step {step}: two adjacent free chunks end/start at {loc}'); return False
        prev_free = is_free
    if pos != h.current_size:
        res.violate('heap-tiling', f'step {step}: chunks end at {pos}, current_size={h.current_size}'); return False
    # used chunks == live allocations
    used = set(chunks) - rel
    if used != set(ref.live):
        res.violate('heap-live-mismatch', f'step {step}: used chunks {sorted(used)[:8]} vs live allocations {sorted(ref.live)[:8]}'); return False
    for loc, sz in ref.live.items():
        if chunks[loc] < sz:
            res.violate('heap-live-mismatch', f'step {step}: live allocation ({loc},{sz}) sits in a chunk of size {chunks[loc]}'); return False
    # high-water mark
    ref.extent_max = max(ref.extent_max, pos)
    if h.max_size < ref.hwm:
        res.violate('heap-hwm', f'step {step}: max_size={h.max_size} below largest loc+size ever returned {ref.hwm}'); return False
    if h.max_size != ref.extent_max:
        res.violate('heap-hwm', f'step {step}: max_size={h.max_size}, true high-water mark {ref.extent_max}'); return False
    return True


def execute_history(case, res):
    from kyupy.sim import Heap
    if case.get('prelude'):      # another allocator object used (and left with free chunks) before: allocators are independent
        h0 = Heap(); live0 = []
        for kind, arg in case['prelude']:
            if kind == 'a': live0.append(h0.alloc(int(arg)))
            elif live0: h0.free(live0.pop(arg % len(live0)))
    h = Heap()
    ref = RefHeap()
    ext_max_before = 0
    for step, (kind, arg) in enumerate(case['ops']):
        if kind == 'a':
            size = int(arg)
            n_free_before = len(h.released)
            dt = case.get('size_dtype', 'int')
            if dt != 'int' and size > np.iinfo(dt).max: dt = 'int64'
            loc = int(h.alloc(size if dt == 'int' else getattr(np, dt)(size)))      # sizes may arrive as numpy scalars (capacity vectors)
            res.log.add('a', size, loc)
            res.count('heap_steps')
            # disjoint from all live regions
            for l2, s2 in ref.live.items():
                if loc < l2 + s2 and l2 < loc + size:
                    res.violate('heap-overlap', f'step {step}: alloc({size}) returned {loc}, overlaps live ({l2},{s2})')
                    return
            if loc < 0:
                res.violate('heap-overlap', f'step {step}: alloc({size}) returned negative {loc}'); return
            if loc < ext_max_before and loc + size <= ext_max_before and n_free_before > 0: res.probe('chunk_reused')
            if len(h.released) == n_free_before and n_free_before > 0 and loc + size <= ext_max_before: res.probe('chunk_split')
            ref.on_alloc(loc, size)
        else:
            if not ref.live: continue
            if kind == 'fo': loc = ref.order[arg % len(ref.order)]
            else:
                locs = sorted(ref.live)
                loc = locs[arg % len(locs)] if arg >= 0 else locs[arg]
            rel = set(h.released)
            sz = h.chunks.get(loc, 0)
            left_free = any(r + h.chunks[r] == loc for r in rel if r in h.chunks)
            right_free = (loc + sz) in rel
            if left_free and right_free: res.probe('coalesced_both_sides')
            elif left_free or right_free: res.probe('coalesced_one_side')
            if loc + sz == h.current_size: res.probe('tail_trim')
            h.free(loc)
            res.log.add('f', loc)
            res.count('heap_steps')
            res.fault('free')
            ref.on_free(loc)
        if not check_tables(h, ref, res, step): return
        ext_max_before = ref.extent_max
    res.log.add('end', h.current_size, h.max_size)
    if res.probes.get('chunk_reused', 0) > 0 or res.probes.get('coalesced_both_sides', 0) > 0: res.nontrivial = True


def shrinks_history(case):
    ops = case['ops']
    n = len(ops)
    # drop suffix / halves / single ops; reduce sizes
    k = n // 2
    while k >= 1:
        for a in range(0, n, k):
            cand = ops[:a] + ops[a + k:]
            if len(cand) < n: yield dict(case, ops=cand)
        k //= 2
    for j, (kind, arg) in enumerate(ops):
        if kind == 'a' and arg > 1:
            for v in (1, arg // 2, arg - 1):
                if 1 <= v < arg: yield dict(case, ops=ops[:j] + [['a', v]] + ops[j + 1:])
        elif kind != 'a' and arg not in (0, -1):
            yield dict(case, ops=ops[:j] + [[kind, 0]] + ops[j + 1:])
