"""C06 - results do not depend on performance options, lane position or code path.

One generated case is executed as a swarm of configuration pairs (A vs B); each pair must agree bit-for-bit on the
port-level observables of the property: WaveSim.s[3:8], s[10] (and c when re-use is off on both sides and both use the
same map), LogicSim.s[1].  Clauses / pairs:
  reuse     c_reuse off vs on, B with F-poison of dead storage at level boundaries, F-reuse batches
  strip     strip_forks off vs on, delays of lines read by forks forced to 0 on both sides
  gpu       WaveSim vs WaveSimCuda under seeded SimCuda schedules / the repository launcher (assign, eval, capture with
            finite capture time, ppo->ppi kernels, abuf)
  lanes     sims N vs N', stimulus lane i moved to lane j
  k         c_prop(sims=k) vs full: lanes < k identical; M3: no write to a column >= k
  dataset   D datasets with global (mode 0, seed=j) or per-lane (mode 1) selection vs a simulator built from dataset j alone
  restore   pickle round trip of the simulator object (WaveSim / WaveSimCuda.__getstate__/__setstate__) between batches
  logic     LogicSim m=2/4/8: reuse, strip, lanes (incl. lanes >= 8)
"""
import numpy as np

from .. import core, lsim, refmodels, wavegen, wsim
from .. import gen as cgen

PROP = 'C06'
TIERS = {
    'quick': {'runs': 2200, 'chunk': 10, 'wall_cap': 80, 'min_budget': 30},
    'thorough': {'runs': 120000, 'chunk': 25, 'wall_cap': 850, 'min_budget': 60},
}
RULE = ('case = seeded circuit + delays (1-3 datasets) + capacities + 1-3 batches (optionally a state transfer ppo->ppi followed by a propagation that keeps s) + 3-5 configuration pairs drawn '
        'from {reuse(+poison), strip (zero delay on fork inputs), cpu-vs-gpu under seeded thread orders / repository launcher, lanes N vs N\' with a lane permutation, first-k lanes, dataset selection '
        'mode 0/1 vs single dataset} + a LogicSim (m=2/4/8) triple {reuse, strip, lanes}; non-trivial iff at least two executed configurations differ in schedule or storage layout AND the '
        'circuit has a level with >= 2 ops or recycles a chunk; distinct = distinct case digests. Purely configurational pairs (dataset, lane position on LogicSim) are counted as fault-free differential.')
REAL_VS_STUB = {'real': ['kyupy.sim.SimOps', 'kyupy.wave_sim (all kernels, host code, both classes)', 'kyupy.logic_sim.LogicSim', 'kyupy.MockCuda launcher'],
                'stub': ['CUDA runtime -> SimCuda scheduler for the seeded thread orders']}
ASSUMPTIONS = ['stimuli are exact 0.0/1.0 (CPU assign treats non-zero as 1, GPU assign thresholds at 0.5; outside {0,1} the property does not speak)',
               's[8]/s[9] with sd>0 are excluded as in the property\'s own observation list',
               'lane-position and lane-count pairs use one dataset or selection mode 0/1 (the default random mode seeds every lane differently by design)']
EXPECTED_PROBES = ['gpu_pair_restricted_in_later_batches', 'lanes_in_mode2', 'pair_restore', 'pair_reuse', 'pair_strip', 'pair_gpu', 'pair_lanes', 'pair_k', 'pair_dataset', 'pair_logic', 'ppo2ppi_then_keep', 'k_lt_sims', 'multi_dataset']


def gen(rng, tier, i):
    script = cgen.gen_script(rng, max_gates=rng.choice([6, 12, 24, 40 if tier == 'thorough' else 24]), max_in=6, max_ff=3, p_glitchy=rng.choice([0.2, 0.4]))
    if rng.random() < 0.03: script = {'net': 'b01', 'ffs': [1], 'style': 'b'}
    sims = rng.randint(1, 6)
    n_sets = rng.choice([1, 1, 2, 3])
    batches = wavegen.gen_batches(rng, n_max=3, sims=sims, p_k=0.0, p_reprop=0.2)
    if script['ffs'] or script['style'] == 'b':
        if rng.random() < 0.6:
            batches[-1]['ppo2ppi'] = True
            batches[-1]['ppi_time'] = rng.choice([0, 0, 1.5, 4])
            batches.append({'stim': batches[-1]['stim'], 'keep_s': True, 'seed': batches[-1]['seed'], 'custom': []})
            for _ in range(rng.choice([0, 0, 1, 3])):      # a real multi-cycle run: capture at a clock period, transfer state, propagate again ...
                batches[-1]['ppo2ppi'] = True
                batches[-1]['ppi_time'] = rng.choice([0, 0, 2])
                batches[-1]['time'] = rng.choice([5, 12.5, 40, 1000])
                batches.append({'stim': batches[-1]['stim'], 'keep_s': True, 'seed': batches[-1]['seed'], 'custom': []})
    for b in batches:
        if rng.random() < 0.06: b['k0'] = True      # c_prop(sims=0): both code paths read 0 as 'no restriction'
        # the capture time as a user passes it: float32, Python float, float64 - also a float64 that is NOT a float32 value and
        # rounds to a transition time (np.linspace steps, clock periods like 0.7), placed by 'time_sel' on a transition of the run
        if rng.random() < 0.35 and b.get('time') is None:
            b['time_sel'] = [rng.randrange(64), rng.randrange(8), rng.randrange(8), rng.choice([0, 0, 0, 0.25, -1])]
            b['time_type'] = rng.choice(['f32', 'py', 'f64', 'f64_above', 'f64_above', 'f64_below'])
        elif b.get('time') is not None:
            b['time_type'] = rng.choice(['f32', 'py', 'f64', 'int' if float(b['time']).is_integer() else 'py'])
    case = {'script': script, 'sims': sims, 'delays': wavegen.gen_delays(rng, n_sets=n_sets), 'caps': wavegen.gen_caps(rng, p_fault=0.3),
            'argforms': wavegen.gen_argforms(rng), 'batches': batches, 'actrl': wavegen.gen_actrl(rng, p=0.3)}
    base = {'c_reuse': rng.random() < 0.3, 'strip_forks': rng.random() < 0.3}
    case['base'] = base
    kinds = ['reuse', 'strip', 'gpu', 'gpu', 'lanes', 'k', 'dataset', 'restore']
    rng.shuffle(kinds)
    pairs = []
    for kind in kinds[:rng.randint(3, 5)]:
        if kind == 'reuse':
            pairs.append({'kind': 'reuse', 'cls': rng.choice(['cpu', 'gpu']),
                          'poison': {'vals': [rng.choice([0, 1, 2.5, 7, 40, float(wsim.TMIN), float(wsim.TMAX), float(wsim.TMAX_OVL)]) for _ in range(5)]} if rng.random() < 0.7 else None})
        elif kind == 'strip':
            pairs.append({'kind': 'strip', 'cls': rng.choice(['cpu', 'gpu'])})
        elif kind == 'gpu':
            s = {'mode': 'repo'} if rng.random() < 0.25 else wavegen.gen_order_sched(rng)
            pairs.append({'kind': 'gpu', 'sched': s, 'block': wavegen.gen_block(rng)})
            if len(batches) > 1 and sims > 1 and rng.random() < 0.35: pairs[-1]['k_late'] = rng.randint(1, sims - 1)      # both paths restricted to k lanes in the later batches
        elif kind == 'lanes':
            n2 = rng.choice([sims, sims + 1, sims + 3, max(1, sims - 1), 9, 9, 33])
            if rng.random() < 0.03: n2 = 260      # beyond one byte of lane numbers, several thread blocks
            perm = list(range(n2)); rng.shuffle(perm)
            lane_map = [perm[l] if l < n2 else None for l in range(sims)]
            pairs.append({'kind': 'lanes', 'sims2': n2, 'lane_map': lane_map, 'cls': rng.choice(['cpu', 'gpu']),
                          'mode2_seeds': [rng.randrange(1 << 12) for _ in range(sims)] if n_sets > 1 and rng.random() < 0.6 else None})
        elif kind == 'k':
            if sims > 1: pairs.append({'kind': 'k', 'k': rng.randint(1, sims - 1), 'cls': rng.choice(['cpu', 'gpu']), 'block': wavegen.gen_block(rng),
                                       'only': [0] if len(batches) > 1 and rng.random() < 0.5 else None})
        elif kind == 'restore':
            if len(batches) > 1:
                pairs.append({'kind': 'restore', 'cls': rng.choice(['cpu', 'gpu']), 'after': sorted(set(rng.randrange(-1, len(batches) - 1) for _ in range(rng.randint(1, 2)))),
                              'c_reuse': rng.random() < 0.5, 'sched': wavegen.gen_order_sched(rng), 'block': wavegen.gen_block(rng)})
        elif kind == 'dataset':
            if n_sets > 1:
                mode = rng.choice([0, 1, 2])      # 2: mixed - some lanes take the global dataset (method 0), others their own (method 1)
                pairs.append({'kind': 'dataset', 'mode': mode, 'j': rng.randrange(n_sets), 'per_lane': [rng.randrange(n_sets) for _ in range(sims)], 'cls': rng.choice(['cpu', 'gpu']),
                              'methods': [rng.choice([0, 1]) for _ in range(sims)]})
    case['pairs'] = pairs
    lsims = rng.choice([1, 3, 8, 9, 13, 16, 20, 33, 300, 121, 127, 250, 255])
    n2 = rng.choice([lsims, lsims + 1, lsims + 8, 24, 40, 64, 65, 257])
    perm = list(range(n2)); rng.shuffle(perm)
    case['logic'] = {'m': rng.choice([2, 4, 8]), 'sims': lsims, 'vals': [rng.choice([0, 0, 2, 2, 3, 1, rng.randrange(8)]) for _ in range(rng.randint(3, 23))],
                     'sims2': n2, 'lane_map': [perm[l] if l < n2 else None for l in range(lsims)], 'cycles': rng.choice([1, 1, 2, 3]),
                     'sims_type': rng.choice(['int', 'int', 'int', 'int64', 'narrow_u', 'narrow_i'])}      # lane counts as NumPy scalars, also of the narrowest type that holds them
    return case


def u32(a):
    return np.ascontiguousarray(a).view(np.uint32)


def cmp_ports(res, kind, label, A, B, rel, s_rows=((3, 8), (10, 11))):
    """rel: list of (lane in A, lane in B)."""
    for bno, (a, b) in enumerate(zip(A, B)):
        for r0, r1 in s_rows:
            for la, lb in rel:
                x, y = u32(a['s'][r0:r1, :, la]), u32(b['s'][r0:r1, :, lb])
                if not np.array_equal(x, y):
                    d = np.argwhere(x != y)[0]
                    res.violate(kind, f'{label} batch {bno}: s[{r0 + d[0]},{d[1]}] lane {la}/{lb}: {a["s"][r0 + d[0], d[1], la]} vs {b["s"][r0 + d[0], d[1], lb]}')
                    res.notes.setdefault('mismatch', {'batch': bno, 'row': int(r0 + d[0]), 'slot': int(d[1]), 'lane': int(la)})
                    return False
    return True


def cmp_memory(res, kind, label, hA, A, hB, B, rel):
    """Line waveforms (up to the terminator) when both sides keep all signals (no re-use) - lines present in both maps."""
    for bno, (a, b) in enumerate(zip(A, B)):
        for l in range(hA.meta.n_lines):
            ra, rb = hA.meta.range_of(l), hB.meta.range_of(l)
            if ra[0] < 0 or rb[0] < 0: continue
            for la, lb in rel:
                wa = refmodels.wave_summary(a['c'][ra[0]:ra[1], la])
                wb = refmodels.wave_summary(b['c'][rb[0]:rb[1], lb])
                if [float(t) for t in wa['entries']] != [float(t) for t in wb['entries']] or wa['term'] != wb['term']:
                    res.violate(kind, f'{label} batch {bno}: waveform of line {l} lane {la}/{lb}: {[float(t) for t in wa["entries"]][:8]} vs {[float(t) for t in wb["entries"]][:8]}')
                    return False
    return True


def nonmonotonic_fork_input(h, outs, only_lane=None):
    """Known-finding precondition (F4): in the un-stripped run some waveform entering a fork is not strictly increasing."""
    c = h.circuit
    for o in outs:
        for l in c.lines:
            if l.reader.kind != '__fork__': continue
            a, b = h.meta.range_of(l.index)
            if a < 0: continue
            for lane in (range(o['c'].shape[1]) if only_lane is None else [only_lane]):
                ent = refmodels.wave_summary(o['c'][a:b, lane])['entries']
                fin = [float(t) for t in ent if t > refmodels.TMIN]
                if any(fin[i] >= fin[i + 1] for i in range(len(fin) - 1)): return True
    return False


def execute(case):
    res = core.Result()
    built = cgen.build(case['script'])
    base = dict(case['base'], cls='cpu')
    n = case['sims']
    ident = [(l, l) for l in range(n)]
    multi = case['delays'].get('n_sets', 1) > 1
    if multi: res.probe('multi_dataset')
    # with several datasets the base uses global selection of dataset 0 (mode 0, seed 0): deterministic and lane-independent
    if multi: base['simctl'] = {'mode': 0}; base['seed'] = 0
    hA, A = wsim.run_config(built, case, base, res, monitors=())
    meta = hA.meta
    if any(b.get('time_sel') is not None for b in case['batches']):
        # a capture time placed on a transition of the base run is the SAME time in every other run of the case
        fb = []
        for b, o in zip(case['batches'], A):
            if b.get('time_sel') is not None:
                b = {k_: v for k_, v in b.items() if k_ != 'time_sel'}
                b['time'] = o['time']
            fb.append(b)
        case = dict(case, batches=fb)
    widths = [b - a for a, b in zip(meta.level_starts, meta.level_stops)]
    res.log.add('base', [wsim.crc(o['s'][3:8]) for o in A])
    if any(b.get('keep_s') for b in case['batches']): res.probe('ppo2ppi_then_keep')
    differ = 0
    for p in case['pairs']:
        kind = p['kind']
        res.probe('pair_' + kind)
        if kind == 'reuse':
            cfgA = dict(base, cls=p['cls'], c_reuse=False)
            cfgB = dict(base, cls=p['cls'], c_reuse=True)
            if p.get('poison'): cfgB['poison'] = p['poison']; res.fault('F-poison')
            h1, o1 = wsim.run_config(built, case, cfgA, res, monitors=())
            h2, o2 = wsim.run_config(built, case, cfgB, res, monitors=())
            res.fault('F-knob-reuse'); differ += 1
            if not cmp_ports(res, 'reuse-changes-result', f'c_reuse off vs on ({p["cls"]})', o1, o2, ident): return res
        elif kind == 'strip':
            cfgA = dict(base, cls=p['cls'], strip_forks=False, zero_fork_inputs=True)
            cfgB = dict(base, cls=p['cls'], strip_forks=True, zero_fork_inputs=True)
            if case.get('caps') and case['caps'].get('vec') is not None:
                # per-line capacities give a branch a capacity of its own when forks are kept and the stem's when stripped:
                # overflow then legitimately differs; the pair is compared with one uniform capacity
                cfgA['caps'] = cfgB['caps'] = {'default': int(case['caps'].get('default', 16)), 'vec': None}
            h1, o1 = wsim.run_config(built, case, cfgA, res, monitors=())
            h2, o2 = wsim.run_config(built, case, cfgB, res, monitors=())
            res.fault('F-knob-strip'); differ += 1
            ok = cmp_ports(res, 'strip-changes-result', f'strip_forks off vs on ({p["cls"]})', o1, o2, ident)
            if not ok:
                # the precondition of known finding F4 is looked up in a run that keeps every waveform (no re-use)
                hx, ox = wsim.run_config(built, case, dict(cfgA, c_reuse=False, poison=None), core.Result(), monitors=())
                res.notes['nonmonotonic_fork_input'] = nonmonotonic_fork_input(hx, ox, res.notes.get('mismatch', {}).get('lane'))
                return res
        elif kind == 'gpu':
            cfgB = dict(base, cls='gpu', sched=p['sched'], block=p['block'])
            h2, o2 = wsim.run_config(built, case, cfgB, res, monitors=())
            res.fault('F-ord'); res.fault('F-grid'); differ += 1
            if not cmp_ports(res, 'gpu-path-changes-result', f'CPU vs GPU path ({p["sched"].get("mode")}/{p["sched"].get("kind", "")})', A, o2, ident): return res
            for bno, (a, b) in enumerate(zip(A, o2)):
                if not np.array_equal(a['abuf'], b['abuf']):
                    res.violate('gpu-path-changes-abuf', f'batch {bno}: abuf CPU {a["abuf"].tolist()} vs GPU {b["abuf"].tolist()}'); return res
            if not base['c_reuse'] and not cmp_memory(res, 'gpu-path-changes-memory', 'CPU vs GPU path', hA, A, h2, o2, ident): return res
            if p.get('k_late') and len(case['batches']) > 1 and p['k_late'] < n:
                # full propagation and capture, then propagation of the first k lanes and a capture (possibly at another time): the lanes beyond k
                # keep their waveforms, and both code paths must report the same for every lane
                late = {'k': p['k_late'], 'k_only_batches': list(range(1, len(case['batches'])))}
                h5, o5 = wsim.run_config(built, case, dict(base, **late), res, monitors=())
                h6, o6 = wsim.run_config(built, case, dict(cfgB, **late), res, monitors=())
                res.probe('gpu_pair_restricted_in_later_batches')
                if not cmp_ports(res, 'gpu-path-changes-result', f'CPU vs GPU path, c_prop(sims={p["k_late"]}) in the later batches', o5, o6, ident): return res
            if multi:
                # several delay datasets in the default mode (2: a pseudo-random dataset per operation and lane, derived from the
                # c_prop seed and the per-lane seed): the pick is a pure function of these, so both code paths must agree
                cfgM = {k_: v for k_, v in base.items() if k_ not in ('simctl', 'seed')}
                h3, o3 = wsim.run_config(built, case, cfgM, res, monitors=())
                h4, o4 = wsim.run_config(built, case, dict(cfgM, cls='gpu', sched=p['sched'], block=p['block']), res, monitors=())
                res.probe('gpu_pair_in_mode2')
                if not cmp_ports(res, 'gpu-path-changes-result', f'CPU vs GPU path, random dataset per operation (mode 2) ({p["sched"].get("mode")}/{p["sched"].get("kind", "")})', o3, o4, ident): return res
        elif kind == 'lanes':
            rel = [(l, t) for l, t in enumerate(p['lane_map']) if l < n and t is not None and t < p['sims2']]     # (a shrunk case may have fewer lanes than the map)
            cfgB = dict(base, cls=p['cls'], sims=p['sims2'], lane_map=p['lane_map'])
            cfgA = dict(base, cls=p['cls'])
            if p.get('mode2_seeds'):
                # random per-operation dataset picking (mode 2): the pick depends on the per-simulation seed simctl_int[0], which
                # travels with the stimulus to its new lane
                seeds = p['mode2_seeds']
                moved = [0] * p['sims2']
                for l, t in rel: moved[t] = seeds[l]
                cfgA['simctl'] = {'mode': 2, 'per_lane': seeds}
                cfgB['simctl'] = {'mode': 2, 'per_lane': moved}
                res.probe('lanes_in_mode2')
            h2, o2 = wsim.run_config(built, case, cfgB, res, monitors=('M3',))
            res.fault('F-lanes'); differ += 1
            cA = A
            if p['cls'] != 'cpu' or p.get('mode2_seeds'):
                h1, cA = wsim.run_config(built, case, cfgA, res, monitors=())
            if not cmp_ports(res, 'lane-position-changes-result', f'sims {n} vs {p["sims2"]}, lane map {p["lane_map"]} ({p["cls"]})', cA, o2, rel): return res
        elif kind == 'k':
            k = p['k']
            res.probe('k_lt_sims')
            cfgB = dict(base, cls=p['cls'], k=k)
            if p.get('only') is not None: cfgB['k_only_batches'] = p['only']      # restricted in these batches only: the later ones propagate all lanes again
            if p['cls'] == 'gpu': cfgB['block'] = p['block']
            h2, o2 = wsim.run_config(built, case, cfgB, res, monitors=('M3',))
            res.fault('F-lanes-k'); differ += 1
            cA = A
            if p['cls'] != 'cpu':
                h1, cA = wsim.run_config(built, case, dict(base, cls=p['cls']), res, monitors=())
            # a state transfer followed by keep_s mixes propagated and unpropagated lanes only lane-wise: still comparable
            if p.get('only') is not None and not any(b.get('keep_s') for b in case['batches']):
                # later, unrestricted batches must be right in every lane (the restriction must not stick to the object)
                if not cmp_ports(res, 'first-k-lanes-changes-result', f'c_prop(sims={k}) in batch {p["only"]} only vs full ({p["cls"]})', cA[1:], o2[1:], ident, s_rows=((3, 8),)): return res
                if not cmp_ports(res, 'first-k-lanes-changes-result', f'c_prop(sims={k}) vs full ({p["cls"]})', cA[:1], o2[:1], [(l, l) for l in range(k)]): return res
                continue
            if not cmp_ports(res, 'first-k-lanes-changes-result', f'c_prop(sims={k}) vs full ({p["cls"]})', cA, o2, [(l, l) for l in range(k)]): return res
            for bno, (a, b) in enumerate(zip(cA, o2)):
                if not np.array_equal(a['abuf'][:, :k], b['abuf'][:, :k]) and a['abuf'].shape == b['abuf'].shape and a['abuf'].shape[1] >= k:
                    res.violate('first-k-lanes-changes-abuf', f'batch {bno}: abuf lanes < {k} differ'); return res
        elif kind == 'restore':
            # F-restore of the simulator object between batches: only the serialised state survives
            cfg1 = dict(base, cls=p['cls'], c_reuse=p['c_reuse'], sched=p['sched'], block=p['block'])
            h1, o1 = wsim.run_config(built, case, cfg1, res, monitors=())
            h2, o2 = wsim.run_config(built, case, dict(cfg1, restore_after=p['after']), res, monitors=())
            differ += 1
            if not cmp_ports(res, 'simulator-restore-changes-result', f'pickle round trip of the {p["cls"]} simulator after batch(es) {p["after"]}', o1, o2, ident): return res
            for bno, (a, b) in enumerate(zip(o1, o2)):
                if not np.array_equal(a['abuf'], b['abuf']):
                    res.violate('simulator-restore-changes-abuf', f'batch {bno}: abuf differs after a pickle round trip of the simulator'); return res
        elif kind == 'dataset':
            nsets = case['delays']['n_sets']
            res.count('faultfree_dataset_pairs')
            if p['mode'] == 0:
                j = p['j'] % nsets
                h1, o1 = wsim.run_config(built, case, dict(base, cls=p['cls'], dataset_only=j, simctl=None, seed=1), res, monitors=())
                h2, o2 = wsim.run_config(built, case, dict(base, cls=p['cls'], simctl={'mode': 0}, seed=j), res, monitors=())
                if not cmp_ports(res, 'dataset-selection-changes-result', f'global selection seed={j} vs dataset {j} alone ({p["cls"]})', o1, o2, ident): return res
            elif p['mode'] == 2 and p.get('methods'):
                j = p['j'] % nsets
                meth = p['methods']
                per = [x % nsets for x in p['per_lane']]
                eff = [j if meth[l % len(meth)] == 0 else per[l % len(per)] for l in range(n)]      # the dataset each lane must end up with
                h2, o2 = wsim.run_config(built, case, dict(base, cls=p['cls'], simctl={'mode': 1, 'per_lane': per, 'mode_per_lane': meth}, seed=j), res, monitors=())
                res.probe('dataset_methods_mixed_across_lanes')
                for ds in sorted(set(eff)):
                    h1, o1 = wsim.run_config(built, case, dict(base, cls=p['cls'], dataset_only=ds, simctl=None, seed=1), res, monitors=())
                    rel = [(l, l) for l in range(n) if eff[l] == ds]
                    if not cmp_ports(res, 'dataset-selection-changes-result', f'methods {meth} / per-lane {per} / global {j} vs dataset {ds} alone ({p["cls"]})', o1, o2, rel): return res
            else:
                per = [x % nsets for x in p['per_lane']]
                h2, o2 = wsim.run_config(built, case, dict(base, cls=p['cls'], simctl={'mode': 1, 'per_lane': per}, seed=1), res, monitors=())
                for j in sorted(set(per[l % len(per)] for l in range(n))):
                    h1, o1 = wsim.run_config(built, case, dict(base, cls=p['cls'], dataset_only=j, simctl=None, seed=1), res, monitors=())
                    rel = [(l, l) for l in range(n) if per[l % len(per)] == j]
                    if not cmp_ports(res, 'dataset-selection-changes-result', f'per-lane selection {per} vs dataset {j} alone ({p["cls"]})', o1, o2, rel): return res
        if res.violations: return res
    logic_pairs(built, case['logic'], res)
    res.nontrivial = differ >= 1 and (any(w >= 2 for w in widths) or len(meta.ops) > 0)
    return res


def logic_pairs(built, lc, res):
    c = built.circuit
    m, sims = int(lc['m']), int(lc['sims'])
    s_len = len(refmodels.s_nodes_of(c))
    mva = lsim.mv_stimulus(s_len, sims, m, lc['vals'])
    res.probe('pair_logic')

    def run(sims_, mv, c_reuse, strip):
        st_ = lc.get('sims_type', 'int')
        if st_ == 'int64': sims_arg = np.int64(sims_)
        elif st_ == 'narrow_u': sims_arg = np.min_scalar_type(int(sims_)).type(sims_)
        elif st_ == 'narrow_i': sims_arg = (np.int8 if sims_ < 128 else np.int16)(sims_)
        else: sims_arg = int(sims_)
        sim = lsim.make(c, sims_arg, m, c_reuse, strip)
        lsim.assign(sim, mv)
        outs = []
        for _ in range(int(lc.get('cycles', 1))):
            s1, _c = lsim.run(sim)
            outs.append(lsim.result_mv(sim, s1).copy())
            sim.s_ppo_to_ppi()
            res.count('logic_cycles')
        return outs
    ref = run(sims, mva, False, False)
    res.log.add_array('lref', ref[0])
    for label, cr, st in (('c_reuse', True, False), ('strip_forks', False, True), ('c_reuse+strip_forks', True, True)):
        o = run(sims, mva, cr, st)
        for cy, (a, b) in enumerate(zip(ref, o)):
            if not np.array_equal(a, b):
                d = np.argwhere(a != b)[0]
                res.violate('logic-option-changes-result', f'LogicSim m={m} {label}: cycle {cy} s[1] slot {d[0]} lane {d[1]}: {a[d[0], d[1]]} vs {b[d[0], d[1]]}')
                return
    # the other lanes carry something else: lane 0 must not notice
    if sims > 1:
        mvb = lsim.mv_stimulus(s_len, sims, m, lc['vals'][::-1] + [lc['vals'][0]])
        mvb[:, 0] = mva[:, 0]
        ob = run(sims, mvb, False, False)
        for cy, (a, b) in enumerate(zip(ref, ob)):
            if not np.array_equal(a[:, 0], b[:, 0]):
                res.violate('logic-lane-position-changes-result', f'LogicSim m={m}: cycle {cy}: results of lane 0 change when only the OTHER lanes get different stimuli: {a[:, 0].tolist()} vs {b[:, 0].tolist()}')
                return
        # ... and lane 0 simulated all by itself (one simulation allocated)
        oa = run(1, mva[:, :1].copy(), False, False)
        for cy, (a, b) in enumerate(zip(ref, oa)):
            if not np.array_equal(a[:, 0], b[:, 0]):
                res.violate('logic-lane-position-changes-result', f'LogicSim m={m}: cycle {cy}: lane 0 of {sims} gives {a[:, 0].tolist()}, the same stimulus simulated alone gives {b[:, 0].tolist()}')
                return
    # lane count / lane position (fault-free differential)
    n2 = int(lc['sims2'])
    lm = lc['lane_map']
    mv2 = lsim.mv_stimulus(s_len, n2, m, lc['vals'], lane_map=lm, lanes=sims)      # lanes mapped to None do not exist in the second simulator
    o = run(n2, mv2, False, False)
    res.count('faultfree_logic_lane_pairs')
    for cy, (a, b) in enumerate(zip(ref, o)):
        for l in range(sims):
            if lm[l] is None or lm[l] >= n2: continue
            if not np.array_equal(a[:, l], b[:, lm[l]]):
                res.violate('logic-lane-position-changes-result', f'LogicSim m={m}: cycle {cy} lane {l} of {sims} moved to lane {lm[l]} of {n2}: {a[:, l].tolist()} vs {b[:, lm[l]].tolist()}')
                return


def finding_key(case, res, kind):
    if kind == 'strip-changes-result' and res.notes.get('nonmonotonic_fork_input'):
        return 'F4-strip-forks-nonmonotonic-fork-input'
    return None


def shrinks(case):
    if len(case['pairs']) > 1:
        for j in range(len(case['pairs'])): yield dict(case, pairs=[case['pairs'][j]])
    yield from wavegen.shrink_wave_case(case)
    for key in ('c_reuse', 'strip_forks'):
        if case['base'][key]: yield dict(case, base=dict(case['base'], **{key: False}))
    for j, p in enumerate(case['pairs']):
        def rep(q): return dict(case, pairs=case['pairs'][:j] + [q] + case['pairs'][j + 1:])
        if p.get('cls') == 'gpu': yield rep(dict(p, cls='cpu'))
        if p.get('poison'): yield rep(dict(p, poison=None))
        if p.get('block') and p['block'] != [1, 1]: yield rep(dict(p, block=[1, 1]))
    lc = case['logic']
    if lc.get('cycles', 1) > 1: yield dict(case, logic=dict(lc, cycles=1))
    if lc['sims'] > 1: yield dict(case, logic=dict(lc, sims=1, lane_map=lc['lane_map'][:1]))
