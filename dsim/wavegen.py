"""Seeded generators for the parts of a waveform-simulation case other than the circuit: delays, capacities,
stimuli, accumulation tables, schedules.  Everything is explicit JSON; the executor never sees the PRNG."""
from . import gen

DYADIC = [0, 0.25, 0.5, 0.75, 1, 1, 1.5, 2, 2, 3, 4, 5, 7.5, 8, 13, 16, 32, 64]


def gen_delays(rng, n_sets=1, skew=None):
    skew = rng.choice(['equal', 'mild', 'wild', 'wild']) if skew is None else skew
    rows = []
    for _ in range(rng.randint(1, 12)):
        if skew == 'equal':
            d = rng.choice(DYADIC[4:]); rows.append([d, d, d, d])
        elif skew == 'mild':
            a, b = rng.choice(DYADIC), rng.choice(DYADIC); rows.append([a, b, a, b])
        else:
            rows.append([rng.choice(DYADIC) for _ in range(4)])
    if rng.random() < 0.15: rows.append([0, 0, 0, 0])
    if rng.random() < 0.3:      # values that are not exactly representable (SDF decimals): float32 and float64 tables round differently
        for _ in range(rng.randint(1, 3)): rows.append([rng.choice([0.1, 0.137, 1.3, 2.7, 0.05, 3.333]) for _ in range(4)])
    return {'n_sets': n_sets, 'rows': rows, 'skew': skew, 'f32': rng.random() < 0.5, 'ndim3': n_sets == 1 and rng.random() < 0.3,
            'short': rng.choice([0, 0, 0, 0, 1, 3]), 'layout': rng.choice(['c', 'c', 'c', 'fortran', 'strided', 'readonly'])}      # > 0: the array covers all lines but the last few (the simulator pads with zero delay)


def gen_caps(rng, p_fault=0.5):
    """F-cap: a random subset of lines at the minimum capacity 4."""
    r = rng.random()
    if r > p_fault:
        return rng.choice([None, {'default': 16, 'vec': None}, {'default': 32, 'vec': None}, {'default': 8, 'vec': None}])
    if rng.random() < 0.25: return {'default': 4, 'vec': None}
    n = rng.randint(3, 17)
    vec = [rng.choice([4, 4, 4, 8, 16, 32, 64]) for _ in range(n)]
    if rng.random() < 0.02: vec[rng.randrange(n)] = 1024
    return {'default': 16, 'vec': vec, 'plus3': rng.random() < 0.5,     # False: the documented length len(circuit.lines)
            'dtype': rng.choice(['list', 'list', 'int64', 'int32', 'uint32', 'uint16', 'uint8', 'int8', 'tuple']), 'readonly': rng.random() < 0.3}


def gen_stim(rng, n=None):
    n = n or rng.randint(2, 19)
    rows = []
    for _ in range(n):
        r = rng.random()
        t = rng.choice([0, 0, 1, 2.5, 5, 10, 17.25, 100, -3, -0.5])
        if r < 0.2: rows.append([0, t, 0])
        elif r < 0.4: rows.append([1, t, 1])
        elif r < 0.7: rows.append([0, t, 1])
        else: rows.append([1, t, 0])
    return rows


def gen_custom(rng, p=0.4):
    out = []
    if rng.random() > p: return out
    for _ in range(rng.randint(1, 5)):
        k = rng.randint(1, 3)
        ts = sorted(set(rng.choice([0, 0.5, 1, 2, 3.25, 5, 8, 9, 12.5, 20, 40]) for _ in range(k)))
        init = rng.random() < 0.5
        if init: ts = ts[:2]
        out.append([rng.randrange(64), rng.randrange(64), ts, init])
    return out


def gen_batches(rng, n_max=3, p_custom=0.4, p_k=0.15, sims=4, p_time=0.3, p_reprop=0.0):
    bs = []
    for _ in range(rng.choice([1, 1, 2, n_max])):
        b = {'stim': gen_stim(rng), 'seed': rng.choice([0, 1, 2, 3, 4, 5, 5, 17, 255, 4096]), 'custom': gen_custom(rng, p_custom)}
        if rng.random() < p_k and sims > 1: b['k'] = rng.randint(1, sims - 1)
        if rng.random() < p_time: b['time'] = rng.choice([0, 1, 2.5, 5, 7.75, 10, 12.5, 20, 50, 1000])
        if rng.random() < 0.1: b['s_to_c_twice'] = True
        if rng.random() < 0.1: b['capture_first'] = rng.choice([0, 3, 7.5, 1000])
        if rng.random() < p_reprop: b['reprop'] = True      # a second c_prop() on the same assignment before results are read
        bs.append(b)
    return bs


def gen_argforms(rng):
    """How plain integer arguments arrive: Python ints or NumPy integer scalars (lane counts taken from array shapes, seeds
    and lane restrictions taken from arrays)."""
    t = ['int', 'int', 'int', 'int64', 'int32']
    return {'sims': rng.choice(t), 'k': rng.choice(t), 'seed': rng.choice(t + ['uint32'])}


def gen_actrl(rng, p=0.35):
    if rng.random() > p: return None
    n_acc = rng.randint(1, 4)
    rows = []
    for _ in range(rng.randint(1, 9)):
        r = rng.random()
        if r < 0.2: rows.append([-1, rng.randint(0, 3), rng.randint(0, 3)])
        elif r < 0.35:      # net toggles: rise and fall weights cancel
            w = rng.choice([1, 1, 2, 5])
            rows.append([rng.randrange(n_acc), w, -w] if rng.random() < 0.5 else [rng.randrange(n_acc), -w, w])
        elif r < 0.42: rows.append([rng.randrange(n_acc), rng.choice([16777217, 1]), rng.choice([16777217, 3])])      # 2**24+1: exact only in integer arithmetic
        else: rows.append([rng.randrange(n_acc), rng.choice([0, 1, 1, 2, 5, -1, -3]), rng.choice([0, 1, 1, 3, 7, -2])])
    if rng.random() < 0.3:      # accumulator indices need not be contiguous
        for r_ in rows:
            if r_[0] >= 0: r_[0] = r_[0] * 2 + 1
    return {'rows': rows, 'plus3': rng.random() < 0.5, 'dtype': rng.choice(['int32', 'int32', 'int64'])}      # (the documentation asks for an integer array; plain lists are not passed)   # False: the documented shape (len(lines), 3)


ORDER_KINDS = ['random', 'random', 'random', 'reversed', 'lane_major', 'op_major', 'last_op_first', 'odd_even', 'canonical']


def gen_order_sched(rng):
    s = {'mode': 'order', 'kind': rng.choice(ORDER_KINDS), 'perm_seed': rng.randrange(1 << 30)}
    if rng.random() < 0.2: s['swaps'] = [[rng.randint(1, 12), rng.randrange(64), rng.randrange(64)] for _ in range(rng.randint(1, 3))]
    return s


def gen_interleave_sched(rng, n=600):
    # sticky runs of one thread mixed with rapid switching
    ch = []
    while len(ch) < n:
        c = rng.randrange(1 << 10)
        ch.extend([c] * rng.choice([1, 1, 1, 2, 3, 6, 12]))
    return {'mode': 'interleave', 'choices': ch[:n], 'step_cap': 60000}


def gen_block(rng, small=False):
    if small: return [rng.randint(1, 3), rng.randint(1, 3)]
    return rng.choice([[1, 1], [2, 3], [4, 5], [3, 2], [1, 5], [4, 1], [32, 16], [2, 2]])


def shrink_wave_case(case):
    """Generic shrink candidates for cases of the waveform family."""
    for s in gen.shrink_script(case['script']): yield dict(case, script=s)
    if len(case['batches']) > 1:
        for j in range(len(case['batches'])): yield dict(case, batches=case['batches'][:j] + case['batches'][j + 1:])
    if case['sims'] > 1: yield dict(case, sims=case['sims'] - 1)
    if case.get('actrl'): yield dict(case, actrl=None)
    if case.get('caps') and not case.get('keep_caps'): yield dict(case, caps=None)
    d = case['delays']
    if len(d['rows']) > 1:
        yield dict(case, delays=dict(d, rows=d['rows'][:1]))
        yield dict(case, delays=dict(d, rows=d['rows'][1:]))
    if d['rows'] != [[1, 1, 1, 1]]: yield dict(case, delays=dict(d, rows=[[1, 1, 1, 1]]))
    if d.get('n_sets', 1) > 1: yield dict(case, delays=dict(d, n_sets=1))
    for j, b in enumerate(case['batches']):
        def rep(nb): return dict(case, batches=case['batches'][:j] + [nb] + case['batches'][j + 1:])
        if b.get('custom'): yield rep(dict(b, custom=[]))
        if b.get('k'): yield rep({k: v for k, v in b.items() if k != 'k'})
        if b.get('time') is not None: yield rep({k: v for k, v in b.items() if k != 'time'})
        if len(b['stim']) > 1:
            yield rep(dict(b, stim=b['stim'][:len(b['stim']) // 2]))
            yield rep(dict(b, stim=b['stim'][len(b['stim']) // 2:]))
        if b.get('ppo2ppi'): yield rep(dict(b, ppo2ppi=False))
        if b.get('reprop'): yield rep({k: v for k, v in b.items() if k != 'reprop'})
