"""Reference models (oracles): RefEval (independent 2-valued gate evaluator over a Circuit) and RefWave
(what a stored waveform encodes)."""
import numpy as np

TMAX = np.float32(2 ** 127)
TMAX_OVL = np.float32(1.1 * 2 ** 127)
TMIN = np.float32(-2 ** 127)


# ---- primitive functions, written from the gate names / the comments in sim.py, not from the LUT constants
def _and(v):
    r = v[0]
    for x in v[1:]: r &= x
    return r


def _or(v):
    r = v[0]
    for x in v[1:]: r |= x
    return r


def _xor(v):
    r = v[0]
    for x in v[1:]: r ^= x
    return r


# name prefix -> (function over the list of pin values, M = all-ones mask; inverted?)
def _mk():
    t = {}
    t['and'] = lambda v, M: _and(v)
    t['nand'] = lambda v, M: M ^ _and(v)
    t['or'] = lambda v, M: _or(v)
    t['nor'] = lambda v, M: M ^ _or(v)
    t['xor'] = lambda v, M: _xor(v)
    t['xnor'] = lambda v, M: M ^ _xor(v)
    for k in ('not', 'inv', 'ibuf'): t[k] = lambda v, M: M ^ v[0]
    for k in ('buf', 'nbuf', 'delln'): t[k] = lambda v, M: v[0]
    for k in ('__const1__', 'tieh'): t[k] = lambda v, M: M
    for k in ('__const0__', 'tiel'): t[k] = lambda v, M: 0
    t['isolor'] = lambda v, M: v[0] | v[1]
    t['ao21'] = lambda v, M: (v[0] & v[1]) | v[2]
    t['aoi21'] = lambda v, M: M ^ ((v[0] & v[1]) | v[2])
    t['oa21'] = lambda v, M: (v[0] | v[1]) & v[2]
    t['oai21'] = lambda v, M: M ^ ((v[0] | v[1]) & v[2])
    t['ao22'] = lambda v, M: (v[0] & v[1]) | (v[2] & v[3])
    t['aoi22'] = lambda v, M: M ^ ((v[0] & v[1]) | (v[2] & v[3]))
    t['oa22'] = lambda v, M: (v[0] | v[1]) & (v[2] | v[3])
    t['oai22'] = lambda v, M: M ^ ((v[0] | v[1]) & (v[2] | v[3]))
    t['ao211'] = lambda v, M: (v[0] & v[1]) | v[2] | v[3]
    t['aoi211'] = lambda v, M: M ^ ((v[0] & v[1]) | v[2] | v[3])
    t['oa211'] = lambda v, M: (v[0] | v[1]) & v[2] & v[3]
    t['oai211'] = lambda v, M: M ^ ((v[0] | v[1]) & v[2] & v[3])
    t['mux21'] = lambda v, M: (v[0] & (M ^ v[2])) | (v[1] & v[2])   # z = i1 if i2 else i0
    return t


PRIMS = _mk()
N_ARY = ('and', 'nand', 'or', 'nor', 'xor', 'xnor')
FIXED_ARITY = {'not': 1, 'inv': 1, 'ibuf': 1, 'buf': 1, 'nbuf': 1, 'delln': 1, '__const1__': 0, 'tieh': 0, '__const0__': 0,
               'tiel': 0, 'isolor': 2, 'ao21': 3, 'aoi21': 3, 'oa21': 3, 'oai21': 3, 'ao22': 4, 'aoi22': 4, 'oa22': 4, 'oai22': 4,
               'ao211': 4, 'aoi211': 4, 'oa211': 4, 'oai211': 4, 'mux21': 3}
_PREFIXES = sorted(PRIMS, key=len, reverse=True)


def prim_of(kind):
    k = kind.lower()
    for p in _PREFIXES:
        if k.startswith(p): return p
    return None


def is_dff(n): return 'dff' in n.kind.lower()
def is_latch(n): return 'latch' in n.kind.lower()
def is_state(n): return is_dff(n) or is_latch(n)


def s_nodes_of(c):
    """Own construction of the port/state-element list: ports in port order, then flip-flops, then latches,
    each in node order."""
    return list(c.io_nodes) + [n for n in c.nodes if is_dff(n)] + [n for n in c.nodes if is_latch(n) and not is_dff(n)]


class RefEval:
    """Gate-by-gate 2-valued evaluation, bit-parallel over lanes with Python ints.

    Semantics: every port or state element is a cut - all its output lines carry its assigned value (second output of
    a flip-flop inverted), the value arriving at its input pin 0 is its result.  Forks copy.  An unconnected pin
    reads 0.  With tlib given, a node whose kind is a library cell is evaluated through its implementation circuit
    (pins bound by position)."""

    def __init__(self, circuit, tlibs=None):
        self.c = circuit
        self.tlibs = tlibs or []
        self.snodes = s_nodes_of(circuit)
        self.sidx = {id(n): i for i, n in enumerate(self.snodes)}

    def eval_lines(self, svals, M):
        """svals: per s_node an int bitmask (assigned value). Returns dict line-object-id -> value for every line."""
        val = {}
        onstack = set()

        def line_value(line):
            if line is None: return 0
            k = id(line)
            if k in val: return val[k]
            if k in onstack: raise ValueError('combinational loop')
            onstack.add(k)
            d = line.driver
            pin = line.driver_pin
            if id(d) in self.sidx:
                v = svals[self.sidx[id(d)]]
                if is_dff(d) and pin == 1: v = M ^ v
            elif d.kind == '__fork__':
                v = line_value(d.ins[0]) if len(d.ins) > 0 else 0
            else:
                v = self.node_out(d, pin, [line_value(l) for l in d.ins], M)
            onstack.discard(k)
            val[k] = v
            return v

        import sys
        if sys.getrecursionlimit() < 20000: sys.setrecursionlimit(20000)
        for l in self.c.lines: line_value(l)
        return val

    def node_out(self, node, pin, ins, M):
        for tl in self.tlibs:
            if node.kind in tl.cells:
                return self.cell_out(tl.cells[node.kind][0], pin, ins, M)
        p = prim_of(node.kind)
        if p is None: raise KeyError(f'RefEval: unknown kind {node.kind}')
        if pin != 0: return 0
        if p in N_ARY:
            n = 4 if len(ins) > 3 and node.ins[3] is not None else 3 if len(ins) > 2 and node.ins[2] is not None else 2
        else:
            n = max(FIXED_ARITY[p], 0)
        v = (list(ins) + [0, 0, 0, 0])[:max(n, 1)]
        return PRIMS[p](v, M) & M

    def cell_out(self, impl, pin, ins, M):
        """Evaluate output `pin` of a library cell: inputs/outputs are the implementation's ports by position."""
        in_nodes = [n for n in impl.io_nodes if len(n.ins) == 0]
        out_nodes = [n for n in impl.io_nodes if len(n.ins) > 0]
        if pin >= len(out_nodes): return 0
        ev = RefEval(impl)
        sv = [0] * len(ev.snodes)
        for k, n in enumerate(in_nodes):
            sv[ev.sidx[id(n)]] = ins[k] if k < len(ins) else 0
        lv = ev.eval_lines(sv, M)
        return lv[id(out_nodes[pin].ins[0])]

    def results(self, svals, M):
        """Value arriving at input pin 0 of every s_node (None if unconnected)."""
        lv = self.eval_lines(svals, M)
        out = []
        for n in self.snodes:
            out.append(lv[id(n.ins[0])] if len(n.ins) > 0 and n.ins[0] is not None else None)
        return out, lv


# ---- RefWave: what a waveform encodes
def wave_entries(col):
    """Entries of a waveform column up to (excluding) its terminator; returns (entries, terminator, n_cells_used)."""
    ent = []
    for k, t in enumerate(col):
        if t >= TMAX: return ent, np.float32(t), k + 1
        ent.append(np.float32(t))
    return ent, None, len(col)


def wave_summary(col):
    ent, term, used = wave_entries(col)
    init = 1 if ent and ent[0] <= TMIN else 0
    final = len(ent) & 1
    fin = [t for t in ent if t > TMIN]
    eat = min(fin) if fin else TMAX
    lst = max(fin) if fin else TMIN
    n_edges = len(ent) - init          # real transitions
    # value after k-th edge alternates starting from init
    rises = (n_edges + (1 - init)) // 2
    falls = (n_edges + init) // 2
    return {'init': init, 'final': final, 'eat': eat, 'lst': lst, 'ovl': 1 if (term is not None and term == TMAX_OVL) else 0,
            'terminated': term is not None, 'rises': rises, 'falls': falls, 'entries': ent, 'term': term, 'used': used}


def value_before(ent, T):
    """Waveform value just before time T = parity of entries < T."""
    return sum(1 for t in ent if t < T) & 1
