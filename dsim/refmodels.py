"""Reference models (oracles): RefEval (independent 2-valued gate evaluator over a Circuit) and RefWave
(what a stored waveform encodes)."""
import numpy as np

TMAX = np.float32(2 ** 127)
TMAX_OVL = np.float32(1.1 * 2 ** 127)
TMIN = np.float32(-2 ** 127)


# ---- primitive functions, written from the gate names / the comments in sim.py, not from the LUT constants
def _and(v):
    r = v[0]
    for x in v[1:]: r &= x
    return r


def _or(v):
    r = v[0]
    for x in v[1:]: r |= x
    return r


def _xor(v):
    r = v[0]
    for x in v[1:]: r ^= x
    return r


# name prefix -> (function over the list of pin values, M = all-ones mask; inverted?)
def _mk():
    t = {}
    t['and'] = lambda v, M: _and(v)
    t['nand'] = lambda v, M: M ^ _and(v)
    t['or'] = lambda v, M: _or(v)
    t['nor'] = lambda v, M: M ^ _or(v)
    t['xor'] = lambda v, M: _xor(v)
    t['xnor'] = lambda v, M: M ^ _xor(v)
    for k in ('not', 'inv', 'ibuf'): t[k] = lambda v, M: M ^ v[0]
    for k in ('buf', 'nbuf', 'delln'): t[k] = lambda v, M: v[0]
    for k in ('__const1__', 'tieh'): t[k] = lambda v, M: M
    for k in ('__const0__', 'tiel'): t[k] = lambda v, M: 0
    t['isolor'] = lambda v, M: v[0] | v[1]
    t['ao21'] = lambda v, M: (v[0] & v[1]) | v[2]
    t['aoi21'] = lambda v, M: M ^ ((v[0] & v[1]) | v[2])
    t['oa21'] = lambda v, M: (v[0] | v[1]) & v[2]
    t['oai21'] = lambda v, M: M ^ ((v[0] | v[1]) & v[2])
    t['ao22'] = lambda v, M: (v[0] & v[1]) | (v[2] & v[3])
    t['aoi22'] = lambda v, M: M ^ ((v[0] & v[1]) | (v[2] & v[3]))
    t['oa22'] = lambda v, M: (v[0] | v[1]) & (v[2] | v[3])
    t['oai22'] = lambda v, M: M ^ ((v[0] | v[1]) & (v[2] | v[3]))
    t['ao211'] = lambda v, M: (v[0] & v[1]) | v[2] | v[3]
    t['aoi211'] = lambda v, M: M ^ ((v[0] & v[1]) | v[2] | v[3])
    t['oa211'] = lambda v, M: (v[0] | v[1]) & v[2] & v[3]
    t['oai211'] = lambda v, M: M ^ ((v[0] | v[1]) & v[2] & v[3])
    t['mux21'] = lambda v, M: (v[0] & (M ^ v[2])) | (v[1] & v[2])   # z = i1 if i2 else i0
    return t


PRIMS = _mk()
N_ARY = ('and', 'nand', 'or', 'nor', 'xor', 'xnor')
FIXED_ARITY = {'not': 1, 'inv': 1, 'ibuf': 1, 'buf': 1, 'nbuf': 1, 'delln': 1, '__const1__': 0, 'tieh': 0, '__const0__': 0,
               'tiel': 0, 'isolor': 2, 'ao21': 3, 'aoi21': 3, 'oa21': 3, 'oai21': 3, 'ao22': 4, 'aoi22': 4, 'oa22': 4, 'oai22': 4,
               'ao211': 4, 'aoi211': 4, 'oa211': 4, 'oai211': 4, 'mux21': 3}
_PREFIXES = sorted(PRIMS, key=len, reverse=True)


def prim_of(kind):
    k = kind.lower()
    for p in _PREFIXES:
        if k.startswith(p): return p
    return None


def is_dff(n): return 'dff' in n.kind.lower()
def is_latch(n): return 'latch' in n.kind.lower()
def is_state(n): return is_dff(n) or is_latch(n)


def s_nodes_of(c):
    """Own construction of the port/state-element list: ports in port order, then flip-flops, then latches,
    each in node order."""
    return list(c.io_nodes) + [n for n in c.nodes if is_dff(n)] + [n for n in c.nodes if is_latch(n) and not is_dff(n)]


class RefEval:
    """Gate-by-gate 2-valued evaluation, bit-parallel over table rows / lanes with Python ints, demand driven.

    Semantics: every port or state element is a cut - all its output lines carry its assigned value (second output of
    a flip-flop inverted), the value arriving at its input pin 0 is its result.  Forks copy.  An unconnected pin reads 0
    (for the n-ary kinds and/nand/or/nor/xor/xnor the arity is the highest connected pin + 1, minimum 2).
    Hierarchical mode: a node whose kind is a cell of one of `tlibs`, or that has an entry in `overrides`
    (id(node) -> implementation circuit), is evaluated through its implementation circuit with pins bound by position;
    the state of a sequential instance is the state of the state element inside its implementation, and its result is
    the value arriving at that inner element's data pin."""

    def __init__(self, circuit, tlibs=None, overrides=None, transparent_outputs=False):
        self.c = circuit
        self.tlibs = tlibs or []
        self.overrides = overrides or {}
        self.snodes = s_nodes_of(circuit)
        self.sidx = {id(n): i for i, n in enumerate(self.snodes)}
        if transparent_outputs:
            # inside an implementation circuit an output port that is also read internally is no cut: it passes its driver on
            self.sidx = {id(n): i for i, n in enumerate(self.snodes) if is_state(n) or len(n.ins) == 0}

    def impl_of(self, node):
        if id(node) in self.overrides: return self.overrides[id(node)]
        for tl in self.tlibs:
            if node.kind in tl.cells: return tl.cells[node.kind][0]
        return None

    def evaluation(self, svals, M, absent=None):
        return Evaluation(self, svals, M, absent)

    def eval_lines(self, svals, M):
        """dict id(line) -> value for every line of the circuit."""
        e = self.evaluation(svals, M)
        return {id(l): e.line_value(l) for l in self.c.lines}

    def results(self, svals, M):
        """Value arriving at the data pin of every s_node (None if unconnected), plus the evaluation."""
        e = self.evaluation(svals, M)
        return [e.observation(n) for n in self.snodes], e


class Evaluation:
    def __init__(self, ev, svals, M, absent=None):
        import sys
        if sys.getrecursionlimit() < 20000: sys.setrecursionlimit(20000)
        self.ev, self.svals, self.M = ev, list(svals), M
        self.absent = absent or set()      # id(line) of lines to be treated as not connected at their reader
        self.val = {}
        self.onstack = set()
        self.inner = {}

    def sval(self, i):
        v = self.svals[i]
        if callable(v):
            v = v()
            self.svals[i] = v
        return v

    def line_value(self, line):
        if line is None or id(line) in self.absent: return 0
        k = id(line)
        if k in self.val: return self.val[k]
        if k in self.onstack: raise ValueError('combinational loop')
        self.onstack.add(k)
        d, pin = line.driver, line.driver_pin
        ev = self.ev
        impl = ev.impl_of(d)
        if impl is not None:
            v = self.instance(d, impl).output(pin)
        elif id(d) in ev.sidx:
            v = self.sval(ev.sidx[id(d)])
            if is_dff(d) and pin == 1: v = self.M ^ v
        elif d.kind == '__fork__':
            v = self.line_value(d.ins[0]) if len(d.ins) > 0 else 0
        else:
            v = self.gate_value(d, pin)
        self.onstack.discard(k)
        self.val[k] = v
        return v

    def pins(self, node):
        return [None if (l is None or id(l) in self.absent) else l for l in node.ins]

    def gate_value(self, node, pin):
        p = prim_of(node.kind)
        if p is None: raise KeyError(f'RefEval: unknown kind {node.kind}')
        if pin != 0: return 0
        ins = self.pins(node)
        if p in N_ARY:
            n = 2
            for k in (3, 2):
                if len(ins) > k and ins[k] is not None: n = k + 1; break
        else:
            n = FIXED_ARITY[p]
        v = [self.line_value(ins[k]) if k < len(ins) else 0 for k in range(max(n, 1))]
        return PRIMS[p](v, self.M) & self.M

    def instance(self, node, impl):
        k = id(node)
        if k not in self.inner: self.inner[k] = Instance(self, node, impl)
        return self.inner[k]

    def observation(self, node):
        """Value arriving at the data pin of a port / state element (None if unconnected)."""
        impl = self.ev.impl_of(node)
        if impl is not None:
            return self.instance(node, impl).state_observation()
        if len(node.ins) == 0 or node.ins[0] is None: return None
        return self.line_value(node.ins[0])


class Instance:
    """One library-cell (or overridden) instance evaluated through its implementation circuit."""

    def __init__(self, outer, node, impl):
        self.outer, self.node, self.impl = outer, node, impl
        self.in_nodes = [n for n in impl.io_nodes if len(n.ins) == 0]
        self.out_nodes = [n for n in impl.io_nodes if len(n.ins) > 0]
        iev = RefEval(impl, tlibs=outer.ev.tlibs, transparent_outputs=True)
        sv = [0] * len(iev.snodes)
        absent = set()
        for k, n in enumerate(self.in_nodes):
            l = node.ins[k] if k < len(node.ins) else None
            if l is None or id(l) in outer.absent:
                # unconnected instance pin: a single reader inside sees no connection at all, several readers see 0
                outs = [o for o in n.outs if o is not None]
                if len(outs) == 1: absent.add(id(outs[0]))
                sv[iev.sidx[id(n)]] = 0
            else:
                sv[iev.sidx[id(n)]] = (lambda l=l: outer.line_value(l))
        self.state_nodes = [n for n in iev.snodes if is_state(n)]
        oidx = outer.ev.sidx.get(id(node))
        for n in self.state_nodes:
            sv[iev.sidx[id(n)]] = (lambda: outer.sval(oidx)) if oidx is not None else 0
        self.e = iev.evaluation(sv, outer.M, absent)

    def output(self, pin):
        if pin >= len(self.out_nodes): return 0
        return self.e.line_value(self.out_nodes[pin].ins[0])

    def state_observation(self):
        if not self.state_nodes: return None
        n = self.state_nodes[0]
        if len(n.ins) == 0 or n.ins[0] is None: return None
        return self.e.line_value(n.ins[0])


# ---- RefWave: what a waveform encodes
def wave_entries(col):
    """Entries of a waveform column up to (excluding) its terminator; returns (entries, terminator, n_cells_used)."""
    ent = []
    for k, t in enumerate(col):
        if t >= TMAX: return ent, np.float32(t), k + 1
        ent.append(np.float32(t))
    return ent, None, len(col)


def wave_summary(col):
    ent, term, used = wave_entries(col)
    init = 1 if ent and ent[0] <= TMIN else 0
    final = len(ent) & 1
    fin = [t for t in ent if t > TMIN]
    eat = min(fin) if fin else TMAX
    lst = max(fin) if fin else TMIN
    n_edges = len(ent) - init          # real transitions
    # value after k-th edge alternates starting from init
    rises = (n_edges + (1 - init)) // 2
    falls = (n_edges + init) // 2
    return {'init': init, 'final': final, 'eat': eat, 'lst': lst, 'ovl': 1 if (term is not None and term == TMAX_OVL) else 0,
            'terminated': term is not None, 'rises': rises, 'falls': falls, 'entries': ent, 'term': term, 'used': used}


def value_before(ent, T):
    """Waveform value just before time T = parity of entries < T."""
    return sum(1 for t in ent if t < T) & 1
