"""Engine that runs kyupy's waveform simulators (WaveSim / WaveSimCuda, real kernel bodies) under the seeded
scheduler, with proxies, monitors, poison and reuse batches.  Used by C03, C06, C07, C08, C13."""
import contextlib
import zlib

import numpy as np

from . import core, refmodels, simcuda
from .refmodels import TMAX, TMAX_OVL, TMIN
from .simcuda import Monitor, Proxy, SimCuda, SimLauncher, ThreadState, T_NONE, T_POISON, T_TMP, PPI_BASE, unwrap

KERNELS = {'wave_assign_gpu': 'assign', 'wave_eval_gpu': 'eval', 'wave_capture_gpu': 'capture', 'ppo_to_ppi_gpu': 'ppo2ppi'}


def typed_int(v, t):
    """v as a Python int or as the NumPy integer scalar type named t."""
    return int(v) if t in (None, 'int') else getattr(np, t)(int(v))


def fitting_dtype(name, vmax):
    """The requested integer dtype if it can hold vmax, else int64 (a user would not choose a dtype that cannot hold the values)."""
    return name if vmax <= np.iinfo(name).max else 'int64'


def ws_module():
    import kyupy.wave_sim as ws
    for name in list(KERNELS) + ['cuda', '_wave_eval_gpu', 'wave_eval_cpu', 'level_eval_cpu', 'wave_capture_cpu', 'WaveSim', 'WaveSimCuda']:
        if not hasattr(ws, name): raise core.HarnessError(f'kyupy.wave_sim.{name} disappeared (coupling, DESIGN 8)')
    return ws


class MapMeta:
    """The harness's own view of a published schedule (ops, levels) and memory map (c_locs, c_caps)."""

    def __init__(self, sim, circuit):
        for a in ('ops', 'level_starts', 'level_stops', 'c_locs', 'c_caps', 'c_len', 'zero_idx', 'tmp_idx', 'tmp2_idx', 'ppi_offset', 'ppo_offset'):
            if not hasattr(sim, a): raise core.HarnessError(f'SimOps.{a} disappeared (coupling, DESIGN 8)')
        self.circuit = circuit
        self.ops = np.array(unwrap(sim.ops)).astype(np.int64).reshape(-1, 9) if len(unwrap(sim.ops)) else np.zeros((0, 9), dtype=np.int64)
        self.c_locs = np.array(unwrap(sim.c_locs)).astype(np.int64)
        self.c_caps = np.array(unwrap(sim.c_caps)).astype(np.int64)
        self.level_starts = [int(x) for x in sim.level_starts]
        self.level_stops = [int(x) for x in sim.level_stops]
        self.c_len = int(sim.c_len)
        self.zero_idx, self.tmp_idx, self.tmp2_idx = int(sim.zero_idx), int(sim.tmp_idx), int(sim.tmp2_idx)
        self.ppi_offset, self.ppo_offset = int(sim.ppi_offset), int(sim.ppo_offset)
        self.n_lines = len(circuit.lines)
        self.snodes = refmodels.s_nodes_of(circuit)
        self.snode_ids = {id(n): i for i, n in enumerate(self.snodes)}
        self.producer_row = {}
        self.dup_producers = []
        self.level_of_row = np.zeros(len(self.ops), dtype=np.int64)
        for lv, (a, b) in enumerate(zip(self.level_starts, self.level_stops)):
            self.level_of_row[a:b] = lv
        for r, op in enumerate(self.ops):
            z = int(op[1])
            if z in self.producer_row and z != self.tmp_idx: self.dup_producers.append(z)
            self.producer_row[z] = r
        self._root = {}

    def range_of(self, x):
        a = int(self.c_locs[x])
        return (a, a + int(self.c_caps[x]))

    def root(self, x):
        """First line up the fork chain (harness's own graph walk) that some op produces; special slots map to themselves."""
        x = int(x)
        path = []      # iterative: a net may run through more forks in series than the interpreter allows nested calls
        while True:
            if x in self._root: r = self._root[x]; break
            path.append(x)
            if x >= self.n_lines or x in self.producer_row: r = x; break
            d = self.circuit.lines[x].driver
            if d.kind == '__fork__' and id(d) not in self.snode_ids and len(d.ins) > 0 and d.ins[0] is not None:
                x = int(d.ins[0].index)
            else:
                r = None; break
        for y in path: self._root[y] = r
        return r

    def expected_tag(self, x):
        x = int(x)
        if x == self.zero_idx: return T_NONE
        if x == self.tmp_idx or x == self.tmp2_idx: return T_TMP
        if x >= self.ppi_offset: return PPI_BASE + (x - self.ppi_offset)
        r = self.root(x)
        return T_NONE if r is None else r

    def expected_capture_tag(self, y):
        if y >= len(self.snodes): return None
        n = self.snodes[y]
        if len(n.ins) == 0 or n.ins[0] is None: return None
        r = self.root(n.ins[0].index)
        return None if r is None else r

    def tag_str(self, t):
        if t == T_NONE: return 'nothing (never written)'
        if t == T_POISON: return 'poison (dead storage)'
        if t == T_TMP: return 'scratch'
        if t >= PPI_BASE: return f'interface input {t - PPI_BASE}'
        return f'line {t}'

    def captured_lines(self):
        out = []
        for i, n in enumerate(self.snodes):
            if len(n.ins) > 0 and n.ins[0] is not None: out.append((i, n.ins[0].index))
        return out

    def live_rows_before_level(self, k):
        """Weakest liveness model: a row of c is live at the boundary before level k iff it lies in the range of an operand
        read by an op of a level >= k whose producer ran in a level < k (interface and constant slots: always), or in the
        range of a captured line produced in a level < k."""
        live = np.zeros(self.c_len, dtype=bool)

        def mark(x):
            a, b = self.range_of(x)
            if a >= 0: live[a:min(b, self.c_len)] = True
        mark(self.zero_idx)
        for i, n in enumerate(self.snodes):
            if self.c_locs[self.ppi_offset + i] >= 0: mark(self.ppi_offset + i)
        for r in range(self.level_starts[k] if k < len(self.level_starts) else len(self.ops), len(self.ops)):
            for x in self.ops[r, 2:6]:
                x = int(x)
                if x >= self.n_lines: continue
                rt = self.root(x)
                if rt is None: continue
                if self.level_of_row[self.producer_row[rt]] < k: mark(x)
        for i, l in self.captured_lines():
            rt = self.root(l)
            if rt is not None and (k >= len(self.level_starts) or self.level_of_row[self.producer_row[rt]] < k): mark(l)
        return live


class Harness:
    """One simulator object under test plus everything hung around it."""

    def __init__(self, built, case, cfg, res, monitors=('M1', 'M2', 'M3')):
        self.built, self.case, self.cfg, self.res = built, case, cfg, res
        self.monitors = set(monitors)
        self.ws = ws_module()
        self.circuit = built.circuit
        self.level_no = 0
        self.produced = {}      # (row, lane) -> wave summary of the waveform as produced (current batch)
        self.cpu_tid = 0
        self.sim = None
        self.meta = None
        self.mon = None
        self.poison_vals = None
        self.in_prop = False

    # ---------------------------------------------------------------- parameters from the case
    def shared(self, key, make):
        """Argument arrays are created once per case and handed to every simulator built for it - as a user would do -
        so that a constructor or a run that modifies its argument shows up in the configurations executed later."""
        cache = self.built.__dict__.setdefault('arg_cache', {})
        if key not in cache: cache[key] = make()
        return cache[key]

    def delays_array(self):
        d = self.case['delays']
        key = ('delays', core.jdump(d), self.cfg.get('dataset_only'), bool(self.cfg.get('zero_fork_inputs')))
        return self.shared(key, self._delays_array)

    def _delays_array(self):
        d = self.case['delays']
        n_sets = max(1, int(d.get('n_sets', 1)))
        nl = len(self.circuit.lines)
        arr = np.zeros((n_sets, nl, 2, 2), dtype=np.float32 if d.get('f32', True) else np.float64)
        rows = d['rows'] or [[1, 1, 1, 1]]
        for ds in range(n_sets):
            for l in range(nl):
                r = rows[(l + 7 * ds) % len(rows)]
                arr[ds, l] = [[r[0], r[1]], [r[2], r[3]]]
        sel = self.cfg.get('dataset_only')
        if sel is not None: arr = arr[sel:sel + 1].copy()
        if d.get('zero_fork_inputs') or self.cfg.get('zero_fork_inputs'):
            for l in self.circuit.lines:
                if l.reader.kind == '__fork__': arr[:, l.index] = 0
        if d.get('short') and nl > d['short'] + 1: arr = arr[:, :nl - int(d['short'])]
        if d.get('ndim3') and arr.shape[0] == 1: arr = arr[0]      # the documented 3-dimensional form (one dataset)
        lay = d.get('layout', 'c')
        if lay == 'fortran': arr = np.asfortranarray(arr)
        elif lay == 'strided':      # a view into a larger array (every other element along the last axis): not contiguous
            big = np.zeros(arr.shape[:-1] + (arr.shape[-1] * 2,), dtype=arr.dtype)
            big[..., ::2] = arr
            arr = big[..., ::2]
        elif lay == 'readonly':
            arr = arr.copy(); arr.flags.writeable = False
        return arr

    def caps(self):
        cp = self.cfg.get('caps', self.case.get('caps'))
        v = self.shared(('caps', core.jdump(cp)), self._caps)
        return v

    def _caps(self):
        cp = self.cfg.get('caps', self.case.get('caps'))
        nl = len(self.circuit.lines)
        if cp is None: return 16
        if cp.get('vec') is None: return int(cp.get('default', 16))
        vec = cp['vec']
        n = nl + 3 if cp.get('plus3', True) else nl
        lst = [int(vec[l % len(vec)]) for l in range(n)]
        if cp.get('dtype', 'list') == 'list': return lst
        if cp.get('dtype') == 'tuple': return tuple(lst)
        a = np.array(lst, dtype=fitting_dtype(cp['dtype'], max(lst) if lst else 0))
        if cp.get('readonly'): a.flags.writeable = False
        return a

    def a_ctrl(self):
        ac = self.case.get('actrl')
        if not ac: return None
        return self.shared(('actrl', core.jdump(ac)), self._a_ctrl)

    def _a_ctrl(self):
        ac = self.case.get('actrl')
        nl = len(self.circuit.lines)
        n = nl + 3 if ac.get('plus3', True) else nl
        arr = np.zeros((n, 3), dtype=np.int32)
        arr[:, 0] = -1
        rows = ac['rows']
        for l in range(nl):
            arr[l] = rows[l % len(rows)]
        dt = ac.get('dtype', 'int32')
        if dt == 'int64': return arr.astype(np.int64)
        if dt == 'list': return arr.tolist()      # the table may come as a plain list of rows
        return arr

    # ---------------------------------------------------------------- construction / patching
    @contextlib.contextmanager
    def session(self):
        ws = self.ws
        cfg = self.cfg
        saved = {n: getattr(ws, n) for n in list(KERNELS) + ['cuda', '_wave_eval_gpu', 'wave_eval_cpu', 'level_eval_cpu']}
        res = self.res
        try:
            gpu = cfg['cls'] == 'gpu'
            sched = cfg.get('sched') or {'mode': 'order', 'kind': 'canonical'}
            self.repo_launcher = gpu and sched.get('mode') == 'repo'
            kw = dict(sims=typed_int(cfg.get('sims', self.case['sims']), (self.case.get('argforms') or {}).get('sims')), c_caps=self.caps(), a_ctrl=self.a_ctrl(), c_reuse=bool(cfg.get('c_reuse')), strip_forks=bool(cfg.get('strip_forks')))
            cls = ws.WaveSimCuda if gpu else ws.WaveSim
            sim = cls(self.circuit, self.delays_array(), **kw)
            self.sim = sim
            self.meta = MapMeta(sim, self.circuit)
            mon = Monitor(res, self.meta, enable_m2='M2' in self.monitors)
            mon.m1_on = 'M1' in self.monitors
            self.mon = mon
            mon.m3_off = 'M3' not in self.monitors
            mon.abuf_sequential = (not gpu) or self.repo_launcher
            self.use_proxies = bool(self.monitors) or (gpu and sched.get('mode') == 'interleave') or bool(cfg.get('snapshots'))
            if cfg.get('snapshots'): mon.snap_cb = self.snapshot
            if gpu and 'block' in cfg: sim._block_dim = tuple(int(v) for v in cfg['block'])
            if gpu and hasattr(sim, '_grid_dim'):
                # the launch geometry the GPU path would use for levels / interfaces far larger than any simulated here
                # (this sandbox cannot run a level of 10**6 operations, but can ask which grid it would get): every (lane, op) needs a thread
                bd = sim._block_dim
                for nx, ny in ((kw['sims'], 70000), (kw['sims'], 1200000), (70000, 5)):
                    g = sim._grid_dim(nx, ny)
                    if int(g[0]) * int(bd[0]) < int(nx) or int(g[1]) * int(bd[1]) < int(ny):
                        res.violate('launch-grid-too-small', f'grid {tuple(int(v) for v in g)} x block {tuple(bd)} does not cover {int(nx)} lanes x {ny} operations: the threads beyond it never run')
                        raise core.AbortRun(res)
            sc = cfg.get('simctl')
            if sc is not None:
                sci = unwrap(sim.simctl_int)
                sci[1] = int(sc['mode'])
                if sc.get('mode_per_lane') is not None:      # the selection method is a per-simulation setting, too
                    for lane in range(sci.shape[1]): sci[1, lane] = int(sc['mode_per_lane'][lane % len(sc['mode_per_lane'])])
                if sc.get('per_lane') is not None:
                    for lane in range(sci.shape[1]): sci[0, lane] = int(sc['per_lane'][lane % len(sc['per_lane'])])
            if self.use_proxies:
                mon.attach_c(unwrap(sim.c))
                sim.c = Proxy(unwrap(sim.c), mon, 'c')
                sim.abuf = Proxy(unwrap(sim.abuf), mon, 'abuf')
                if gpu and not self.repo_launcher: sim.s = Proxy(unwrap(sim.s), mon, 's')
                for name in ('ops', 'c_locs', 'c_caps', 'delays'):
                    a = getattr(sim, name)
                    if isinstance(a, np.ndarray):
                        v = a.view(); v.flags.writeable = False
                        setattr(sim, name, v)
            # --- device function wrappers: thread identity = (op row, lane)
            dev_gpu = saved['_wave_eval_gpu']
            dev_gpu_f = getattr(dev_gpu, 'func', dev_gpu)
            dev_cpu = saved['wave_eval_cpu']
            h = self

            def ident_gpu(op, cbuf, c_locs, c_caps, sim_, *rest):
                ts = mon.cur
                if ts is None or h.repo_launcher:
                    ts = h.new_cpu_thread()
                ts.op = tuple(int(v) for v in op)
                ts.op_row = h.meta.producer_row.get(ts.op[1])
                ts.lane = int(sim_)
                r = dev_gpu_f(op, cbuf, c_locs, c_caps, sim_, *rest)
                return r

            def ident_cpu(op, cbuf, c_locs, c_caps, sim_, *rest):
                ts = h.new_cpu_thread()
                ts.op = tuple(int(v) for v in op)
                ts.op_row = h.meta.producer_row.get(ts.op[1])
                ts.lane = int(sim_)
                return dev_cpu(op, cbuf, c_locs, c_caps, sim_, *rest)

            level_cpu = saved['level_eval_cpu']

            def level_wrapper(ops, op_start, op_stop, *rest):
                h.before_level()
                mon.begin_launch('eval')
                mon.thread_table = {}
                res.count('launches')
                try:
                    return level_cpu(ops, op_start, op_stop, *rest)
                finally:
                    h.flush_cpu_thread()
                    mon.end_launch()

            if self.use_proxies or cfg.get('poison'):
                ws._wave_eval_gpu = ident_gpu
                ws.wave_eval_cpu = ident_cpu
                ws.level_eval_cpu = level_wrapper
            if gpu and not self.repo_launcher:
                simc = SimCuda(mon, sched, res, hooks={'before_launch': self.before_launch})
                self.simc = simc
                ws.cuda = simc
                for name, short in KERNELS.items():
                    k = saved[name]
                    if not hasattr(k, 'func'): raise core.HarnessError(f'kernel launcher {name} has no .func (coupling, DESIGN 8)')
                    setattr(ws, name, SimLauncher(short, k.func, simc))
            elif gpu and self.repo_launcher and (self.use_proxies or cfg.get('poison')):
                # the repository's own launcher as one more schedule ("canonical order"); launches are bracketed for the monitors
                class Bracket:
                    def __init__(s, short, orig): s.short, s.orig, s.func = short, orig, orig.func
                    def __call__(s, *a, **k): return s.orig(*a, **k)
                    def __getitem__(s, item):
                        inner = s.orig[item]
                        def run(*args):
                            if s.short == 'eval': h.before_level()
                            mon.begin_launch(s.short)
                            mon.thread_table = {}
                            res.count('launches')
                            try: inner(*args)
                            finally:
                                h.flush_cpu_thread()
                                mon.end_launch()
                        return run
                for name, short in KERNELS.items():
                    setattr(ws, name, Bracket(short, saved[name]))
            yield sim
        finally:
            for n, v in saved.items(): setattr(ws, n, v)

    def new_cpu_thread(self):
        self.flush_cpu_thread()
        self.cpu_tid += 1
        ts = ThreadState(self.mon.kernel or 'eval', self.mon.launch_no, self.cpu_tid, None, None)
        self.mon.begin_thread(ts)
        tab = getattr(self.mon, 'thread_table', None)
        if tab is not None: tab[ts.tid] = ts
        self.res.count('sched_steps')
        return ts

    def flush_cpu_thread(self):
        ts = self.mon.cur
        if ts is not None:
            self.mon.end_thread(ts)
            self.mon.cur = None

    def snapshot(self, ts):
        """Waveform of an op's output as it stands when its thread finishes (with memory reuse it is gone later)."""
        z = ts.op[1]
        a, b = self.meta.range_of(z)
        col = unwrap(self.sim.c)[a:b, ts.lane]
        self.produced[(ts.op_row if z != self.meta.tmp_idx else ('tmp', ts.tid), ts.lane)] = (ts.op, refmodels.wave_summary(col))

    # ---------------------------------------------------------------- poison (F-poison)
    def before_launch(self, kname, launch_no, args):
        if kname == 'eval': self.before_level()

    def before_level(self):
        k = self.level_no
        self.level_no += 1
        p = self.cfg.get('poison')
        if not p or not self.in_prop: return
        live = self.meta.live_rows_before_level(k)
        dead = np.flatnonzero(~live)
        if len(dead) == 0: return
        vals = p['vals']
        c = unwrap(self.sim.c)
        for j, row in enumerate(dead):
            for lane in range(c.shape[1]):
                c[row, lane] = np.float32(vals[(int(row) * 3 + lane + k) % len(vals)])
        if self.mon is not None and self.mon.tag_prod is not None: self.mon.poison_tags(dead)
        self.res.fault('poison_cells', len(dead) * c.shape[1])
        self.res.fault('poison_boundaries')

    # ---------------------------------------------------------------- one batch
    def assign(self, batch):
        """Write the stimulus of a batch into s[0:3] (exact 0.0/1.0 values, finite times)."""
        sim = self.sim
        s = unwrap(sim.s)
        stim = batch['stim']
        lane_map = self.cfg.get('lane_map')
        nsim = s.shape[2]
        s[0:3] = 0
        n_lanes_case = int(batch.get('lanes', self.case['sims']))
        for si in range(s.shape[1]):
            for lane in range(n_lanes_case):
                tgt = lane if lane_map is None else lane_map[lane]
                if tgt is None or tgt >= nsim: continue
                v = stim[(si * 5 + lane * 3) % len(stim)]
                s[0, si, tgt], s[1, si, tgt], s[2, si, tgt] = float(v[0]), float(v[1]), float(v[2])

    def check_assigned_inputs(self, bno):
        """After s_to_c() every input waveform must encode the assigned initial and final value (s[0], s[2]) - whatever the slot held before."""
        sim, meta, res = self.sim, self.meta, self.res
        c, sv = unwrap(sim.c), np.asarray(unwrap(sim.s))
        for i in range(len(meta.snodes)):
            loc = int(meta.c_locs[meta.ppi_offset + i])
            if loc < 0 or len(meta.snodes[i].outs) == 0: continue
            for lane in range(c.shape[1]):
                w = refmodels.wave_summary(c[loc:loc + 4, lane])
                exp = (int(sv[0, i, lane] != 0), int(sv[2, i, lane] != 0))
                if not w['terminated'] or (w['init'], w['final']) != exp:
                    res.violate('input-waveform-not-as-assigned', f'batch {bno}: after s_to_c() the waveform of input/state slot {i} lane {lane} is {[float(t) for t in c[loc:loc + 4, lane]]}, '
                                                                  f'assigned initial/final value {exp}')
                    return False
        return True

    def write_custom(self, batch):
        """Multi-transition input waveforms written into the interface input slots (capacity 4)."""
        cust = batch.get('custom') or []
        if not cust: return
        sim, meta = self.sim, self.meta
        c = unwrap(sim.c)
        pipp = [i for i in range(len(meta.snodes)) if meta.c_locs[meta.ppi_offset + i] >= 0]
        if not pipp: return
        lane_map = self.cfg.get('lane_map')
        for s_sel, lane_sel, times, init in cust:
            si = pipp[s_sel % len(pipp)]
            lane = lane_sel % int(batch.get('lanes', self.case['sims']))
            if lane_map is not None:
                lane = lane_map[lane]
                if lane is None: continue
            if lane >= c.shape[1]: continue
            loc = int(meta.c_locs[meta.ppi_offset + si])
            ent = ([TMIN] if init else []) + [np.float32(t) for t in times]
            ent = ent[:3]
            for j in range(4):
                c[loc + j, lane] = ent[j] if j < len(ent) else TMAX
            self.res.probe('custom_input_waveform')

    def input_values(self):
        """(initial, final) value bitmasks per s_node from the input waveforms as they stand in c (after s_to_c and custom writes)."""
        meta = self.meta
        c = unwrap(self.sim.c)
        n = c.shape[1]
        init, final = [0] * len(meta.snodes), [0] * len(meta.snodes)
        for i in range(len(meta.snodes)):
            loc = int(meta.c_locs[meta.ppi_offset + i])
            if loc < 0: continue
            for lane in range(n):
                w = refmodels.wave_summary(c[loc:loc + 4, lane])
                init[i] |= w['init'] << lane
                final[i] |= w['final'] << lane
        return init, final

    def run_batch(self, batch, bno):
        sim, meta, mon, res = self.sim, self.meta, self.mon, self.res
        cfg = self.cfg
        if not batch.get('keep_s'): self.assign(batch)
        mon.prop_id += 1
        self.produced = {}
        sim.s_to_c()
        if batch.get('s_to_c_twice'): sim.s_to_c()       # idempotent
        self.check_assigned_inputs(bno)
        late = bool(batch.get('custom_late') and batch.get('reprop') and not batch.get('keep_s'))
        if not batch.get('keep_s') and not late: self.write_custom(batch)
        if mon.tag_prod is not None:
            idx = [i for i in range(len(meta.snodes)) if meta.c_locs[meta.ppi_offset + i] >= 0]
            mon.tag_inputs(unwrap(sim.c), idx, [int(meta.c_locs[meta.ppi_offset + i]) for i in idx], n=4)
        inputs = self.input_values()
        # intra-level row permutation (CPU path, and GPU: the kernel reads rows by index, so permuting rows permutes y)
        rp = cfg.get('rowperm')
        if rp is not None and not getattr(self, '_permuted', False):
            self.permute_rows(rp)
            self._permuted = True
        k = cfg.get('k', batch.get('k'))
        if cfg.get('k_only_batches') is not None and bno not in cfg['k_only_batches']: k = batch.get('k')
        seed = int(cfg.get('seed', batch.get('seed', 1)))
        mon.k_lanes = int(k) if k else None
        self.level_no = 0
        self.in_prop = True
        try:
            for _rep in range(2 if batch.get('reprop') else 1):
                if _rep:
                    if late:      # the input waveforms are replaced between two propagations, without a new s_to_c(): the second propagation must see them
                        self.write_custom(batch)
                        inputs = self.input_values()
                        res.probe('inputs_rewritten_between_propagations')
                    self.level_no = 0
                    self.produced = {}
                    mon.prop_id += 1
                    if mon.tag_prod is not None:      # the inputs of the repeated propagation are the same assignment
                        idx = [i for i in range(len(meta.snodes)) if meta.c_locs[meta.ppi_offset + i] >= 0]
                        for i in idx:
                            loc = int(meta.c_locs[meta.ppi_offset + i])
                            mon.tag_prop[loc:loc + 4, :] = mon.prop_id
                    res.count('repeated_propagations')
                af = self.case.get('argforms') or {}
                if batch.get('k0') and not k: sim.c_prop(sims=typed_int(0, af.get('k')), seed=typed_int(seed, af.get('seed')))      # 'no restriction' spelled as 0
                elif k: sim.c_prop(sims=typed_int(k, af.get('k')), seed=typed_int(seed, af.get('seed')))
                else: sim.c_prop(seed=typed_int(seed, af.get('seed')))
        finally:
            self.in_prop = False
        mon.k_lanes = None
        mon.capture_lanes = int(k) if k else None
        res.count('propagations')
        # final poison: everything dead after the last level
        self.level_no = len(meta.level_starts)
        self.in_prop = True
        self.before_level()
        self.in_prop = False
        t = batch.get('time')
        ts_ = batch.get('time_sel')
        if ts_ is not None:
            cap = [(i, l) for i, l in meta.captured_lines() if meta.c_locs[l] >= 0]
            t = float(ts_[3])
            if cap:
                i, l = cap[ts_[0] % len(cap)]
                a, b = meta.range_of(l)
                ent = [float(x) for x in refmodels.wave_summary(unwrap(sim.c)[a:b, ts_[1] % unwrap(sim.c).shape[1]])['entries'] if x > TMIN]
                if ent: t = ent[ts_[2] % len(ent)] + float(ts_[3])
        self.capture_time = t
        if batch.get('capture_first') is not None: sim.c_to_s(time=np.float32(batch['capture_first']))      # an earlier capture is simply overwritten
        if t is None: sim.c_to_s()
        else:
            tt = batch.get('time_type', 'f32')
            t32 = np.float32(t)
            if tt == 'py': targ = float(t32)
            elif tt == 'int': targ = int(t)
            elif tt == 'f64': targ = np.float64(t32)
            elif tt == 'f64_above': targ = np.float64(t32) + abs(np.float64(t32)) * 2.0 ** -30      # rounds to t32 in float32, lies above it
            elif tt == 'f64_below': targ = np.float64(t32) - abs(np.float64(t32)) * 2.0 ** -30
            else: targ = t32
            if tt != 'f32': res.probe('capture_time_' + tt)
            sim.c_to_s(time=targ)
        out = {'time': t, 's': np.array(unwrap(sim.s)).copy(), 'abuf': np.array(unwrap(sim.abuf)).copy(), 'inputs': inputs,
               'produced': self.produced, 'c': unwrap(sim.c).copy()}
        if batch.get('ppo2ppi'):
            sim.s_ppo_to_ppi(time=float(batch.get('ppi_time', 0.0)))
            out['s_after'] = np.array(unwrap(sim.s)).copy()
        return out

    def restore_sim(self):
        import pickle
        sim = self.sim
        wrapped = {}
        for name in ('c', 'abuf', 's'):
            a = getattr(sim, name)
            if isinstance(a, Proxy):
                wrapped[name] = a
                setattr(sim, name, a.real)
        data = pickle.dumps(sim)
        new = pickle.loads(data)
        for name, pr in wrapped.items():
            pr.real = getattr(new, name)
            pr.flat = None
            setattr(new, name, pr)
        if hasattr(sim, '_block_dim') and not hasattr(new, '_block_dim'): new._block_dim = sim._block_dim
        self.sim = new
        self.circuit = new.circuit
        self.meta = MapMeta(new, new.circuit)
        if self.mon is not None: self.mon.meta = self.meta
        self.res.fault('F-restore-simulator')
        self.res.count('pickled_bytes', len(data))

    def permute_rows(self, rp):
        import random
        meta = self.meta
        ops = np.array(unwrap(self.sim.ops)).copy()
        for lv, (a, b) in enumerate(zip(meta.level_starts, meta.level_stops)):
            idx = list(range(a, b))
            if rp.get('kind') == 'reversed': idx.reverse()
            else: random.Random((int(rp.get('seed', 0)) << 12) ^ lv).shuffle(idx)
            ops[a:b] = ops[idx]
        if len(ops) > 1: self.res.fault('row_permutation')
        ops.flags.writeable = False
        self.sim.ops = ops
        self.meta = MapMeta(self.sim, self.circuit)
        self.mon.meta = self.meta

    def line_waves(self, c, lines=None):
        """Per line and lane the stored waveform up to and including its terminator (tuple of float32 bit patterns)."""
        meta = self.meta
        out = {}
        for l in (range(meta.n_lines) if lines is None else lines):
            a, b = meta.range_of(l)
            if a < 0: continue
            for lane in range(c.shape[1]):
                w = refmodels.wave_summary(c[a:b, lane])
                out[(l, lane)] = w
        return out


def run_config(built, case, cfg, res, monitors=('M1', 'M2', 'M3')):
    """Construct a simulator for cfg, run all batches of the case on it. Returns (harness, [batch outcomes]).
    cfg['restore_after'] = [batch numbers]: F-restore of the simulator object itself (pickle -> drop -> unpickle) after
    those batches; the remaining batches run on the restored object."""
    h = Harness(built, case, cfg, res, monitors)
    outs = []
    with h.session():
        if -1 in (cfg.get('restore_after') or ()): h.restore_sim()      # pickled before it was ever used
        for bno, batch in enumerate(case['batches']):
            outs.append(h.run_batch(batch, bno))
            if bno in (cfg.get('restore_after') or ()) and bno + 1 < len(case['batches']): h.restore_sim()
    return h, outs


def crc(a):
    return zlib.crc32(np.ascontiguousarray(a).tobytes())
