"""SimCuda: a seeded scheduler for the (simulation, operation) thread grid of kyupy's GPU kernels, device-memory
proxies, and the three run-time monitors M1 (race), M2 (shadow ownership) and M3 (lane isolation).

Nothing in here draws a random number: thread orders and interleaving choices come from the case.
"""
import threading
import zlib

import numpy as np

from . import core

R, W, A = 0, 1, 2   # access modes: read, write, atomic read-modify-write

# tag codes for the shadow-ownership array
T_NONE = -1
T_POISON = -2
T_TMP = -3
PPI_BASE = 1 << 24


class StepCap(Exception):
    pass


class Abort(BaseException):
    """Raised inside parked GPU threads when a launch is torn down."""


class Proxy:
    """Forwards item access / shape to a real numpy array and reports every access to the monitor."""
    __slots__ = ('real', 'mon', 'name', 'flat')

    def __init__(self, real, mon, name):
        self.real = real
        self.mon = mon
        self.name = name
        self.flat = None

    def __getitem__(self, key):
        self.mon.access(self, R, key)
        return self.real[key]

    def __setitem__(self, key, v):
        self.mon.access(self, W, key)
        self.real[key] = v

    @property
    def shape(self): return self.real.shape
    @property
    def ndim(self): return self.real.ndim
    @property
    def dtype(self): return self.real.dtype
    @property
    def nbytes(self): return self.real.nbytes
    def __len__(self): return len(self.real)
    def __array__(self, dtype=None, copy=None): return self.real if dtype is None else self.real.astype(dtype)
    def copy(self): return self.real.copy()

    def cells(self, key):
        """Flat indices touched by an arbitrary numpy key (slow path)."""
        if self.flat is None:
            self.flat = np.arange(self.real.size).reshape(self.real.shape)
        return np.atleast_1d(self.flat[key]).ravel()


def unwrap(a):
    return a.real if isinstance(a, Proxy) else a


class ThreadState:
    __slots__ = ('kernel', 'launch', 'tid', 'x', 'y', 'op', 'lane', 'reads', 'writes', 'sem', 'done', 'exc', 'thread', 'op_row')

    def __init__(self, kernel, launch, tid, x, y):
        self.kernel, self.launch, self.tid, self.x, self.y = kernel, launch, tid, x, y
        self.op = None      # tuple of the op row once the device function has been entered
        self.op_row = None
        self.lane = None
        self.reads = []     # (array name, flat cell) for kernels judged at thread end (capture)
        self.writes = []
        self.sem = None
        self.done = False
        self.exc = None
        self.thread = None


class Monitor:
    """M1/M2/M3 over proxied arrays. One instance per simulator object under test."""

    def __init__(self, res, meta, enable_m2=True):
        self.res = res
        self.meta = meta          # MapMeta (harness's own view of the schedule and the map)
        self.cur = None           # ThreadState currently running
        self.launch_no = 0
        self.kernel = None
        self.cells = {}           # M1: (array name, flat) -> [writer tid, writer mode, reader tids (set), writer ThreadState]
        self.enable_m2 = enable_m2
        self.prop_id = 0
        self.tag_prod = None      # int32 array like c
        self.tag_prop = None
        self.sched = None         # interleave controller or None
        self.max_reports = 4
        self.n_access = 0
        self.k_lanes = None       # restriction of propagation to the first k lanes (M3)
        self.raced_launch = False
        self.snap_cb = None       # called when an eval thread finishes (op_row, lane)
        self.m3_off = False
        self.abuf_sequential = False   # CPU path / repository launcher: accumulation is sequential by construction
        self.capture_lanes = None      # lanes that were propagated (first k); others hold no valid data
        self.m1_on = True
        self.thread_table = None

    # ---- life cycle
    def attach_c(self, c_real):
        self.tag_prod = np.full(c_real.shape, T_NONE, dtype=np.int32)
        self.tag_prop = np.full(c_real.shape, -1, dtype=np.int32)

    def begin_launch(self, kernel):
        self.kernel = kernel
        self.cells = {}
        self.raced_launch = False
        self.launch_no += 1

    def end_launch(self):
        self.kernel = None
        self.cells = {}
        self.cur = None

    def begin_thread(self, ts):
        self.cur = ts

    def end_thread(self, ts):
        if ts.kernel == 'capture': self.judge_capture(ts)
        elif ts.kernel == 'eval' and ts.op is not None and self.snap_cb is not None: self.snap_cb(ts)

    # ---- the hook
    def access(self, proxy, mode, key):
        if self.sched is not None: self.sched.yield_point()
        self.n_access += 1
        ts = self.cur
        if ts is None: return
        name = proxy.name
        real = proxy.real
        if type(key) is tuple and len(key) == real.ndim and all(type(k) is int or isinstance(k, (np.integer,)) for k in key):
            key = tuple(int(k) for k in key)
            for k, dim in zip(key, real.shape):
                if k < 0 or k >= dim:
                    self.res.violate(f'M2-out-of-bounds', f'{self.desc(ts)} accesses {name}{list(key)} outside shape {real.shape}')
                    if k >= dim or k < -dim: raise core.AbortRun(self.res, f'{name}{key} out of bounds')
            if real.ndim == 2: cells = (key[0] * real.shape[1] + key[1],)
            else: cells = (int(np.ravel_multi_index(tuple(k % d for k, d in zip(key, real.shape)), real.shape)),)
            cols = (key[-1],)
        else:
            cells = tuple(int(x) for x in proxy.cells(key))
            cols = None
            if name == 'c' and type(key) is tuple and len(key) == 2 and isinstance(key[0], slice) and mode == R:
                # CPU capture reads a whole capacity slice; only the part up to the terminator is data
                col = int(key[1])
                start = key[0].start or 0
                colv = real[key[0], col]
                n = len(colv)
                for j, t in enumerate(colv):
                    if t >= core_TMAX: n = j + 1; break
                cells = tuple((start + j) * real.shape[1] + col for j in range(n))
                cols = (col,)
        # M3 lane isolation
        if not self.m3_off and cols is not None and ts.lane is not None and name in ('c', 'abuf', 's') and cols[0] != ts.lane:
            self.res.violate('M3-lane', f'{self.desc(ts)} (lane {ts.lane}) touches {name}{list(key)} in column {cols[0]}')
        if not self.m3_off and mode != R and self.k_lanes is not None and cols is not None and name in ('c', 'abuf') and cols[0] >= self.k_lanes:
            self.res.violate('M3-lane-k', f'{self.desc(ts)} writes {name}{list(key)} although propagation is restricted to {self.k_lanes} lanes')
        if name == 'abuf' and self.abuf_sequential: mode = A
        # M1 race monitor
        if self.m1_on:
            for cell in cells:
                self.m1(ts, name, cell, mode, key)
        # M2 ownership
        if name == 'c' and self.enable_m2 and self.tag_prod is not None:
            if ts.kernel == 'eval': self.m2_eval(ts, cells, mode, key)
            elif ts.kernel == 'capture':
                if mode == R: ts.reads.extend(cells)
            elif ts.kernel == 'assign':
                pass
        if name == 's' and ts.kernel == 'capture' and mode == W and type(key) is tuple:
            ts.writes.append(key)

    def desc(self, ts):
        if ts is None: return 'host'
        if ts.op is not None: return f'launch {ts.launch} kernel {ts.kernel} thread{ts.tid} op-row {ts.op_row} (out line {ts.op[1]})'
        return f'launch {ts.launch} kernel {ts.kernel} thread{ts.tid}'

    # ---- M1
    def m1(self, ts, name, cell, mode, key):
        k = (name, cell)
        st = self.cells.get(k)
        tid = ts.tid
        if st is None:
            self.cells[k] = [tid if mode != R else None, mode, {tid} if mode == R else set(), ts if mode != R else None]
            return
        wtid, wmode, readers, wts = st
        conflict = None
        if mode == R:
            if wtid is not None and wtid != tid: conflict = (wts, 'write-read')
            readers.add(tid)
        else:
            if wtid is not None and wtid != tid and not (mode == A and wmode == A): conflict = (wts, 'write-write')
            else:
                for r in readers:
                    if r != tid: conflict = (None, 'read-write'); break
            st[0], st[1], st[3] = tid, mode, ts
        if conflict is not None and not self.raced_launch:
            other, what = conflict
            # role exemption: both threads evaluate gates without an output line (scratch slot, nobody reads it)
            if name == 'c' and ts.op is not None and self.meta is not None and ts.op[1] == self.meta.tmp_idx:
                if other is None or (other.op is not None and other.op[1] == self.meta.tmp_idx):
                    if other is not None or self.all_readers_tmp(readers, tid):
                        self.res.probe('m1_scratch_conflict_exempted')
                        return
            self.raced_launch = True
            self.res.violate('M1-race', f'{what} conflict on {name} cell {self.cell_str(name, cell)} in launch {ts.launch} ({ts.kernel}): '
                                        f'{self.desc(ts)} vs {self.desc(other) if other else "reader thread(s) " + str(sorted(readers - {tid})[:3])}')

    def all_readers_tmp(self, readers, tid):
        # readers are tids; we only know the current launch's thread table through the scheduler
        tab = getattr(self, 'thread_table', None)
        if tab is None: return False
        for r in readers:
            if r == tid: continue
            o = tab.get(r)
            if o is None or o.op is None or o.op[1] != self.meta.tmp_idx: return False
        return True

    def cell_str(self, name, cell):
        if name == 'c' and self.tag_prod is not None:
            ncol = self.tag_prod.shape[1]
            return f'[{cell // ncol},{cell % ncol}]'
        return str(cell)

    # ---- M2
    def m2_eval(self, ts, cells, mode, key):
        if ts.op is None:
            self.res.violate('M2-unidentified', f'{self.desc(ts)} touches c{list(key) if isinstance(key, tuple) else key} outside the device function')
            return
        meta = self.meta
        ncol = self.tag_prod.shape[1]
        z = ts.op[1]
        zr = meta.range_of(z)
        for cell in cells:
            row, col = divmod(cell, ncol)
            if mode == W:
                if not (zr[0] <= row < zr[1]):
                    self.res.violate('M2-write-outside-output', f'{self.desc(ts)} writes c[{row},{col}] outside its output range {zr}')
                    continue
                self.tag_prod[row, col] = T_TMP if z == meta.tmp_idx else z
                self.tag_prop[row, col] = self.prop_id
                continue
            # read
            if zr[0] <= row < zr[1]:
                own = T_TMP if z == meta.tmp_idx else z
                if self.tag_prod[row, col] == own and self.tag_prop[row, col] == self.prop_id: continue
                if z == meta.tmp_idx and self.tag_prod[row, col] == T_TMP: continue
                # falls through: may also be a legitimate operand range aliasing? no - report below if no operand matches
            ok = False
            inrange = False
            for x in ts.op[2:6]:
                xr = meta.range_of(x)
                if xr[0] <= row < xr[1]:
                    inrange = True
                    exp = meta.expected_tag(x)
                    if exp == T_NONE:
                        if self.tag_prod[row, col] == T_NONE: ok = True; break
                    elif self.tag_prod[row, col] == exp and self.tag_prop[row, col] == self.prop_id:
                        ok = True; break
            if ok: continue
            if not inrange:
                self.res.violate('M2-read-outside-operands', f'{self.desc(ts)} reads c[{row},{col}] which lies in none of its operand ranges '
                                 f'{[meta.range_of(x) for x in ts.op[2:6]]} nor its output range {zr}')
            else:
                self.res.violate('M2-stale-read', f'{self.desc(ts)} reads c[{row},{col}] expecting data of {[meta.tag_str(meta.expected_tag(x)) for x in ts.op[2:6] if meta.range_of(x)[0] <= row < meta.range_of(x)[1]]} '
                                 f'of propagation {self.prop_id} but the cell holds {meta.tag_str(int(self.tag_prod[row, col]))} of propagation {int(self.tag_prop[row, col])}')

    def judge_capture(self, ts):
        """A capture thread is identified by the s-slot it wrote; everything it read from c must belong to the line
        feeding that port/state element in the current propagation."""
        if not ts.writes or self.tag_prod is None or not self.enable_m2: return
        ys = set(int(k[1]) for k in ts.writes if len(k) == 3)
        vs = set(int(k[2]) for k in ts.writes if len(k) == 3)
        if len(ys) != 1 or len(vs) != 1:
            self.res.violate('M3-capture-scatter', f'{self.desc(ts)} writes result slots of several ports/lanes: {sorted(ys)} x {sorted(vs)}')
            return
        y, v = ys.pop(), vs.pop()
        if self.capture_lanes is not None and v >= self.capture_lanes: return   # lane was not propagated (first-k restriction)
        exp = self.meta.expected_capture_tag(y)
        ncol = self.tag_prod.shape[1]
        for cell in ts.reads:
            row, col = divmod(cell, ncol)
            if col != v:
                self.res.violate('M3-lane', f'capture thread for port {y} lane {v} reads c[{row},{col}]'); return
            if exp is None:
                self.res.violate('M2-capture-unexpected', f'capture thread writes results for s-slot {y} which has no captured line'); return
            if self.tag_prod[row, col] != exp or self.tag_prop[row, col] != self.prop_id:
                self.res.violate('M2-stale-capture', f'capture of s-slot {y} lane {v} reads c[{row},{col}] expecting {self.meta.tag_str(exp)} of propagation {self.prop_id}, '
                                 f'cell holds {self.meta.tag_str(int(self.tag_prod[row, col]))} of propagation {int(self.tag_prop[row, col])}')
                return

    # ---- host-side helpers
    def tag_inputs(self, c_real, s_idx_list, c_loc_list, n=3):
        """After s_to_c: the first n cells of every interface input slot belong to ('ppi', s_idx) of the new propagation."""
        for s_idx, loc in zip(s_idx_list, c_loc_list):
            self.tag_prod[loc:loc + n, :] = PPI_BASE + int(s_idx)
            self.tag_prop[loc:loc + n, :] = self.prop_id

    def poison_tags(self, rows):
        self.tag_prod[rows, :] = T_POISON


core_TMAX = np.float32(2 ** 127)


class Interleaver:
    """Baton-passing controller: each GPU thread is a real Python thread, exactly one runs at any time, every
    proxied access is a pre-emption point, the next thread is taken from the case's explicit choice list."""

    def __init__(self, choices, step_cap, res):
        self.choices = choices or [0]
        self.step_cap = step_cap
        self.res = res
        self.pos = 0
        self.steps = 0
        self.ctl = threading.Semaphore(0)
        self.current = None
        self.aborting = False

    def yield_point(self):
        ts = self.current
        if ts is None or threading.current_thread() is not ts.thread: return
        self.ctl.release()
        ts.sem.acquire()
        if self.aborting: raise Abort()

    def run_launch(self, mon, threads, body):
        """threads: list of ThreadState; body(ts) runs the kernel for that thread."""
        def runner(ts):
            ts.sem.acquire()
            try:
                if not self.aborting: body(ts)
            except Abort:
                pass
            except BaseException as e:  # noqa
                ts.exc = e
            ts.done = True
            self.ctl.release()

        for ts in threads:
            ts.sem = threading.Semaphore(0)
            ts.thread = threading.Thread(target=runner, args=(ts,), daemon=True)
            ts.thread.start()
        runnable = list(threads)
        failed = None
        while runnable:
            if self.steps >= self.step_cap:
                failed = StepCap(f'scheduler step cap {self.step_cap} reached'); break
            ch = self.choices[self.pos % len(self.choices)]
            self.pos += 1
            self.steps += 1
            # stickiness: choice values >= 1<<20 mean "keep running the same thread if still runnable"
            ts = runnable[ch % len(runnable)]
            self.current = ts
            mon.cur = ts
            self.res.log.add('sw', ts.tid)
            ts.sem.release()
            self.ctl.acquire()
            if ts.done:
                runnable.remove(ts)
                mon.end_thread(ts)
                if ts.exc is not None: failed = ts.exc; break
        self.current = None
        if runnable:
            self.aborting = True
            for ts in runnable: ts.sem.release()
            for ts in runnable: ts.thread.join(timeout=10)
            self.aborting = False
        for ts in threads:
            if ts.thread is not None: ts.thread.join(timeout=10)
        if failed is not None: raise failed


class SimLauncher:
    """Stands in for a @cuda.jit kernel object: kernel[grid, block](*args) runs the grid under the scheduler."""

    def __init__(self, name, func, simc):
        self.name = name
        self.func = func
        self.simc = simc

    def __call__(self, *args, **kw):
        return self.func(*args, **kw)

    def __getitem__(self, item):
        grid, block = item

        def inner(*args):
            self.simc.launch(self, grid, block, args)
        return inner


class SimCuda:
    """Becomes kyupy.wave_sim.cuda for the duration of a run."""

    def __init__(self, mon, sched_spec, res, hooks=None):
        self.mon = mon
        self.res = res
        self.spec = sched_spec          # dict: mode, kind, perm_seed, swaps, choices, step_cap
        self.hooks = hooks or {}
        self.launches = 0
        self.cur = None
        self.inter = None
        if sched_spec.get('mode') == 'interleave':
            self.inter = Interleaver(sched_spec.get('choices'), int(sched_spec.get('step_cap', 50000)), res)
        outer = self

        class _Atomic:
            @staticmethod
            def add(arr, idx, val):
                if isinstance(arr, Proxy):
                    arr.mon.access(arr, A, idx)
                    real = arr.real
                else:
                    real = arr
                try:
                    old = real[idx]
                    real[idx] += val
                except IndexError:
                    outer.res.violate('M2-out-of-bounds', f'kernel {outer.mon.desc(outer.mon.cur)}: atomic.add on index {idx} of an array of shape {real.shape}')
                    raise core.AbortRun(outer.res, 'atomic.add out of bounds')
                outer.res.count('atomic_adds')
                return old
        self.atomic = _Atomic

    # the five things kernels and host code use
    def grid(self, dims):
        ts = self.mon.cur
        return ts.x, ts.y

    @staticmethod
    def to_device(array, to=None):
        if to is not None:
            to[...] = array
            return to
        return np.array(unwrap(array)).copy()

    def synchronize(self):
        pass

    def jit(self, func=None, device=False):
        raise core.HarnessError('SimCuda.jit must not be called at run time')

    def order(self, n, launch_no, threads):
        spec = self.spec
        kind = spec.get('kind', 'canonical')
        idx = list(range(n))
        if kind == 'reversed': idx.reverse()
        elif kind == 'random':
            import random
            random.Random((int(spec.get('perm_seed', 0)) << 16) ^ launch_no).shuffle(idx)
        elif kind == 'lane_major': idx.sort(key=lambda i: (threads[i].x, threads[i].y))
        elif kind == 'op_major': idx.sort(key=lambda i: (threads[i].y, threads[i].x))
        elif kind == 'last_op_first': idx.sort(key=lambda i: (-threads[i].y, threads[i].x))
        elif kind == 'odd_even': idx.sort(key=lambda i: ((threads[i].y & 1), -threads[i].x, threads[i].y))
        for sw in spec.get('swaps', []):
            l, a, b = sw
            if l == launch_no and n > 0:
                a %= n; b %= n
                idx[a], idx[b] = idx[b], idx[a]
        return idx

    def launch(self, launcher, grid, block, args):
        self.launches += 1
        self.res.count('launches')
        kname = launcher.name
        if 'before_launch' in self.hooks: self.hooks['before_launch'](kname, self.launches, args)
        mon = self.mon
        mon.begin_launch(kname)
        threads = []
        tid = 0
        for gx in range(grid[0]):
            for gy in range(grid[1]):
                for bx in range(block[0]):
                    for by in range(block[1]):
                        threads.append(ThreadState(kname, self.launches, tid, gx * block[0] + bx, gy * block[1] + by))
                        tid += 1
        mon.thread_table = {t.tid: t for t in threads}
        self.res.count('gpu_threads', len(threads))
        if len(threads) >= 2: self.res.probe('launch_with_2plus_threads')
        func = launcher.func
        if self.inter is not None and kname in self.spec.get('interleave_kernels', ('eval',)):
            mon.sched = self.inter
            try:
                self.inter.run_launch(mon, threads, lambda ts: func(*args))
            finally:
                mon.sched = None
            self.res.count('sched_steps', 0)
        else:
            order = self.order(len(threads), self.launches, threads)
            self.res.log.add('order', kname, zlib.crc32(bytes(str(order), 'ascii')))
            for i in order:
                ts = threads[i]
                mon.begin_thread(ts)
                func(*args)
                mon.end_thread(ts)
                self.res.count('sched_steps')
        mon.end_launch()
        if self.inter is not None: self.res.counters['sched_steps'] = self.inter.steps
        if 'after_launch' in self.hooks: self.hooks['after_launch'](kname, self.launches, args)
