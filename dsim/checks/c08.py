"""C08 - signal-memory map and allocator never let live data overlap."""
from .. import core, heapsim

PROP = 'C08'
TIERS = {
    'quick': {'runs': 6000, 'chunk': 100, 'wall_cap': 80},
    'thorough': {'runs': 400000, 'chunk': 500, 'wall_cap': 800},
}
RULE = 'placeholder'
REAL_VS_STUB = {}
ASSUMPTIONS = []
EXPECTED_PROBES = ['chunk_reused', 'chunk_split', 'coalesced_both_sides', 'coalesced_one_side', 'tail_trim']


def gen(rng, tier, i):
    return heapsim.gen_history(rng, tier)


def execute(case):
    res = core.Result()
    if case['mode'] == 'heap':
        heapsim.execute_history(case, res)
    return res


def shrinks(case):
    if case['mode'] == 'heap':
        yield from heapsim.shrinks_history(case)


def sample(case):
    c = dict(case)
    if 'ops' in c: c['ops'] = c['ops'][:40]
    return c
